"""C19 - rendering is a pure function of its inputs: deterministic and isolated."""
import base64, itertools, json, os, random, struct, zlib
from fractions import Fraction
import common
from common import qlit, zlit, slit

# ======================================================================================================================
# document grammar (wide enough to exercise module-level state: UA stylesheets and counter styles, @font-face and the
# font configuration, images and the image cache, SVG, forms, bookmarks, target-counter re-pagination, flex/grid style
# write-back, tables, footnotes, running elements, hyphenation dictionaries, quotes)

WORDS = ['abc', 'de', 'fgh', 'a', 'bcd', 'efgh', 'hyphenation', 'considerable', 'ab', 'gfe', 'cab', 'bead', 'face',
         'fed', 'international', 'abcdefgh', 'Hg', 'xyz', 'lorem', 'ipsum']
IMAGES = ['pattern.png', 'blue.jpg', 'icon.png', 'logo_small.png', 'pattern.gif', 'not-optimized.jpg',
          'pattern.palette.png', 'pattern.svg', 'border.svg', 'really-a-png.svg', 'really-a-svg.png']
FAMILIES = ['weasyprint', 'wpwoff', 'DejaVu Sans', 'serif', 'monospace', 'DejaVu Serif']


def _png(w, h, rgb):
    raw = b''.join(b'\x00' + bytes(rgb) * w for _ in range(h))

    def chunk(t, d):
        return struct.pack('>I', len(d)) + t + d + struct.pack('>I', zlib.crc32(t + d) & 0xffffffff)
    return (b'\x89PNG\r\n\x1a\n' + chunk(b'IHDR', struct.pack('>IIBBBBB', w, h, 8, 2, 0, 0, 0)) +
            chunk(b'IDAT', zlib.compress(raw, 9)) + chunk(b'IEND', b''))


def data_png(w, h, rgb):
    return 'data:image/png;base64,' + base64.b64encode(_png(w, h, rgb)).decode()


class Gen:
    def __init__(self, rng, feats=None):
        self.rng = rng
        self.n = 0
        self.ids = []
        self.feats = set()
        self.families = set()
        self.counter_styles = set()
        self.allow = feats

    def uid(self, p='e'):
        self.n += 1
        return '%s%d' % (p, self.n)

    def text(self, lo=1, hi=8):
        return ' '.join(self.rng.choice(WORDS) for _ in range(self.rng.randint(lo, hi)))

    def family(self):
        f = self.rng.choice(FAMILIES)
        self.families.add(f)
        return f

    def inline(self, depth=0):
        rng = self.rng
        out = []
        for _ in range(rng.randint(1, 4)):
            r = rng.random()
            if r < 0.45 or depth > 1:
                out.append(self.text(1, 6))
            elif r < 0.55:
                out.append('<b>%s</b>' % self.text(1, 2))
            elif r < 0.62:
                out.append('<i style="font-family:%s">%s</i>' % (self.family(), self.text(1, 2)))
            elif r < 0.70:
                self.feats.add('link')
                if self.ids and rng.random() < 0.6:
                    t = rng.choice(self.ids)
                    cls = rng.choice(['', ' class=tc', ' class=tt'])
                    out.append('<a href="#%s"%s>%s</a>' % (t, cls, self.text(1, 2)))
                    if cls:
                        self.feats.add('target-counter')
                else:
                    out.append('<a href="%s">%s</a>' % (rng.choice(['https://example.org/x?a=1', 'other.html#z', '#nowhere']), self.text(1, 2)))
            elif r < 0.76:
                self.feats.add('footnote')
                out.append('<span class=fn>%s</span>' % self.text(1, 4))
            elif r < 0.82:
                self.feats.add('img')
                out.append(self.img())
            elif r < 0.86:
                out.append('<q>%s</q>' % self.text(1, 2))
                self.feats.add('quotes')
            elif r < 0.90:
                out.append('<span style="%s">%s</span>' % (rng.choice([
                    'text-decoration:underline', 'letter-spacing:1px', 'font-size:14px', 'color:#369', 'opacity:.5',
                    'display:inline-block;width:40px;border:1px solid', 'vertical-align:super;font-size:7px',
                    'background:yellow;padding:0 2px', 'font-variant-caps:small-caps', 'font-weight:bold',
                    'position:relative;top:2px', 'white-space:nowrap', 'text-transform:uppercase']), self.text(1, 3)))
            elif r < 0.94:
                out.append('<span class=cnt></span>')
                self.feats.add('counter')
            else:
                out.append('<span>%s</span>' % self.inline(depth + 1))
        return ' '.join(out)

    def img(self, style=''):
        rng = self.rng
        r = rng.random()
        if r < 0.7:
            src = rng.choice(IMAGES)
        elif r < 0.9:
            src = data_png(rng.choice([1, 3, 8]), rng.choice([1, 2, 8]), rng.choice([(255, 0, 0), (0, 128, 0), (0, 0, 255)]))
            self.feats.add('data-url')
        else:
            src = 'missing-%d.png' % rng.randint(1, 2)
            self.feats.add('missing-image')
        st = rng.choice(['', 'width:20px', 'height:15px', 'width:30px;height:10px', 'width:2em',
                         'width:40px;height:40px;object-fit:contain', 'width:25px;image-rendering:pixelated',
                         'max-width:50%', 'float:right;width:20px', 'opacity:.6;width:16px', 'image-orientation:none;width:20px',
                         'image-orientation:90deg;width:20px', 'image-orientation:180deg flip', 'width:3px', 'width:120px'])
        return '<img src="%s" alt="%s" style="%s">' % (src, rng.choice(['', 'alt abc']), st + style)

    def svg(self):
        rng = self.rng
        self.feats.add('svg')
        u = self.uid('g')
        parts = []
        for _ in range(rng.randint(1, 4)):
            k = rng.randrange(8)
            if k == 0:
                parts.append('<rect x="%d" y="%d" width="%d" height="%d" fill="%s" stroke="black"/>' % (
                    rng.randint(0, 20), rng.randint(0, 10), rng.randint(1, 30), rng.randint(1, 20), rng.choice(['red', 'url(#%s)' % u, 'url(#%sg)' % u, 'none', '#0a0'])))
            elif k == 1:
                parts.append('<circle cx="%d" cy="%d" r="%d" fill="blue" opacity="%s"/>' % (rng.randint(5, 40), rng.randint(5, 20), rng.randint(1, 12), rng.choice(['1', '.5'])))
            elif k == 2:
                parts.append('<text x="2" y="%d" font-family="%s" font-size="%d">%s</text>' % (rng.randint(8, 20), self.family(), rng.choice([6, 8, 10]), self.text(1, 2)))
            elif k == 3:
                parts.append('<path d="M %d %d L 30 5 Q 20 20 5 %d Z" fill="none" stroke="green" stroke-width="%d" stroke-dasharray="%s"/>' % (
                    rng.randint(0, 9), rng.randint(0, 9), rng.randint(5, 25), rng.randint(1, 3), rng.choice(['none', '2 1'])))
            elif k == 4:
                parts.append('<g transform="%s"><ellipse cx="20" cy="10" rx="8" ry="4" fill="orange"/></g>' % rng.choice(['rotate(10)', 'translate(3 4) scale(.5)', 'skewX(10)']))
            elif k == 5:
                parts.append('<use href="#%sr" x="%d" y="3"/>' % (u, rng.randint(0, 20)))
            elif k == 6:
                parts.append('<image href="%s" x="1" y="1" width="10" height="10"/>' % rng.choice(['pattern.png', 'blue.jpg']))
            else:
                parts.append('<rect width="20" height="12" fill="%s" clip-path="url(#%sc)" opacity="%s" mask="%s"/><use href="#%ss" x="30" y="2" width="8" height="8"/>' % (
                    rng.choice(['teal', 'url(#%sp)' % u]), u, rng.choice(['1', '.4']), rng.choice(['none', 'url(#%sm)' % u]), u))
        defs = ('<defs><linearGradient id="%s"><stop offset="0" stop-color="red"/><stop offset="1" stop-color="blue" stop-opacity=".5"/>'
                '</linearGradient><rect id="%sr" width="6" height="6" fill="purple"/><clipPath id="%sc"><circle cx="8" cy="6" r="6"/></clipPath>'
                '<radialGradient id="%sg"><stop offset="0" stop-color="#fff"/><stop offset="1" stop-color="#060"/></radialGradient>'
                '<mask id="%sm"><rect width="10" height="12" fill="white"/></mask>'
                '<pattern id="%sp" width="4" height="4" patternUnits="userSpaceOnUse"><rect width="2" height="2" fill="black"/></pattern>'
                '<symbol id="%ss" viewBox="0 0 4 4"><circle cx="2" cy="2" r="2" fill="navy"/></symbol></defs>'
                % (u, u, u, u, u, u, u))
        return '<svg xmlns="http://www.w3.org/2000/svg" width="%d" height="%d" viewBox="0 0 50 30">%s%s</svg>' % (
            rng.choice([50, 100, 30]), rng.choice([30, 60, 20]), defs, ''.join(parts))

    def block(self, depth=0):
        rng = self.rng
        kinds = ['p', 'p', 'p', 'h', 'h', 'h', 'list', 'list', 'table', 'table', 'flex', 'flex', 'grid', 'grid', 'img', 'img', 'svg',
                 'svg', 'form', 'form', 'deco', 'deco', 'float', 'abs', 'columns', 'pre', 'div', 'div', 'break', 'toc', 'toc', 'running',
                 'hyph', 'dl', 'transform']
        if self.allow is not None:
            kinds = [k for k in kinds if k in self.allow] or ['p']
        if depth > 0:      # nested content: simple blocks only (nested columns/flex are slow; running() in flex crashes)
            kinds = [k for k in kinds if k in ('p', 'p', 'h', 'list', 'img', 'deco', 'pre', 'dl', 'form', 'svg', 'float', 'abs',
                                               'transform', 'break')] or ['p']
            if depth == 1 and rng.random() < 0.15:
                kinds = [k for k in ('table', 'flex', 'grid') if self.allow is None or k in self.allow] or kinds
        k = rng.choice(kinds)
        self.feats.add(k)
        if k == 'p':
            return '<p%s>%s</p>' % (rng.choice(['', '', ' style="text-align:justify"', ' style="text-indent:1em"', ' lang=fr',
                                                 ' style="font-family:%s"' % self.family(), ' style="line-height:1.7"',
                                                 ' style="orphans:3;widows:3"', ' style="break-inside:avoid"']), self.inline())
        if k == 'h':
            i = self.uid('h')
            self.ids.append(i)
            lv = rng.choice([1, 1, 2, 2, 3, 4])
            return '<h%d id="%s"%s>%s</h%d>' % (lv, i, rng.choice(['', '', ' style="bookmark-state:closed"', ' style="bookmark-level:none"',
                                                                     ' style="bookmark-label:content(text)"', ' style="break-before:page"']), self.text(1, 4), lv)
        if k == 'list':
            tag = rng.choice(['ul', 'ol'])
            lst = rng.choice(['', 'list-style-type:lower-roman', 'list-style-type:upper-alpha', 'list-style-type:square',
                              'list-style-position:inside', 'list-style-image:url(pattern.png)', 'list-style-type:"- "',
                              'list-style-type:mycyc', 'list-style-type:myadd', 'list-style-type:mynum', 'list-style-type:cjk-decimal',
                              'list-style-type:lower-greek', 'list-style-type:disclosure-open'])
            for name in ('mycyc', 'myadd', 'mynum'):
                if name in lst:
                    self.counter_styles.add(name)
            items = []
            for _ in range(rng.randint(1, 5)):
                inner = self.inline()
                if depth < 2 and rng.random() < 0.2:
                    inner += self.block(depth + 2) if rng.random() < 0.5 else '<ol><li>%s<li>%s</ol>' % (self.text(1, 2), self.text(1, 2))
                items.append('<li%s>%s</li>' % (rng.choice(['', '', ' value=7', ' style="counter-increment:list-item 3"']), inner))
            return '<%s style="%s"%s>%s</%s>' % (tag, lst, rng.choice(['', ' start=4', ' reversed']) if tag == 'ol' else '', ''.join(items), tag)
        if k == 'table':
            nc = rng.randint(1, 4)
            rows = []
            for r in range(rng.randint(1, 5)):
                cells = []
                c = 0
                while c < nc:
                    span = rng.choice([1, 1, 1, 2]) if c + 1 < nc else 1
                    attrs = ' colspan=2' if span == 2 else ''
                    if rng.random() < 0.08:
                        attrs += ' rowspan=2'
                    cells.append('<td%s>%s</td>' % (attrs, self.inline(1) if rng.random() < 0.8 else ''))
                    c += span
                rows.append('<tr>%s</tr>' % ''.join(cells))
            head = '<thead><tr>%s</tr></thead>' % ''.join('<th>%s</th>' % self.text(1, 1) for _ in range(nc)) if rng.random() < 0.4 else ''
            foot = '<tfoot><tr><td colspan=%d>%s</td></tr></tfoot>' % (nc, self.text(1, 2)) if rng.random() < 0.2 else ''
            cap = '<caption>%s</caption>' % self.text(1, 3) if rng.random() < 0.2 else ''
            st = rng.choice(['', 'border-collapse:collapse', 'width:100%', 'table-layout:fixed;width:100%', 'border-spacing:3px 1px',
                             'border-collapse:collapse;width:80%'])
            return '<table class=t style="%s">%s%s%s<tbody>%s</tbody></table>' % (st, cap, head, foot, ''.join(rows))
        if k == 'flex':
            st = rng.choice(['', 'flex-wrap:wrap', 'flex-direction:column', 'flex-wrap:wrap;height:60px', 'justify-content:space-between',
                             'align-items:center', 'flex-wrap:wrap;align-content:stretch;height:80px', 'gap:4px', 'flex-direction:row-reverse'])
            items = []
            for _ in range(rng.randint(1, 5)):
                ist = rng.choice(['', 'flex:1', 'width:60px', 'flex:0 1 40px', 'width:45%', 'height:20px', 'align-self:flex-end', 'flex:2 1 0',
                                  'margin:2px', 'width:60px;height:15px'])
                items.append('<div style="%s;border:1px solid #999">%s</div>' % (ist, self.inline(1) if rng.random() < 0.8 else self.block(depth + 3)))
            return '<div style="display:flex;%s">%s</div>' % (st, ''.join(items))
        if k == 'grid':
            st = rng.choice(['grid-template-columns:1fr 2fr', 'grid-template-columns:auto auto', 'grid-template-columns:50px 1fr 50px',
                             'grid-template-columns:repeat(3,1fr);gap:3px', 'grid-template-rows:auto auto;height:70px',
                             'grid-template-columns:1fr 1fr;grid-auto-rows:20px', 'grid-template-columns:auto auto;justify-items:start'])
            items = []
            for _ in range(rng.randint(1, 6)):
                ist = rng.choice(['', '', 'justify-self:start', 'align-self:end', 'padding:2px', 'background:#eee'])
                items.append('<div style="%s">%s</div>' % (ist, self.inline(1)))
            return '<div style="display:grid;%s">%s</div>' % (st, ''.join(items))
        if k == 'img':
            return '<div>%s%s</div>' % (self.img(), self.img() if rng.random() < 0.4 else '')
        if k == 'svg':
            return '<div>%s</div>' % self.svg()
        if k == 'form':
            self.feats.add('form')
            ctl = []
            for _ in range(rng.randint(1, 4)):
                n = self.uid('f')
                ctl.append(rng.choice([
                    '<input name="%s" value="%s">' % (n, self.text(1, 2)), '<input type=checkbox name="%s"%s>' % (n, rng.choice(['', ' checked'])),
                    '<input type=radio name="%s" value=a checked><input type=radio name="%s" value=b>' % (n, n),
                    '<textarea name="%s" rows=2>%s</textarea>' % (n, self.text(1, 5)), '<select name="%s"><option>a<option selected>bc</select>' % n,
                    '<button>%s</button>' % self.text(1, 1), '<input type=password name="%s" value=secret>' % n,
                    '<input name="%s" maxlength=5 required placeholder=ph>' % n, '<select multiple name="%s"><option>a<option selected>b</select>' % n,
                    '<input type=submit value=go>', '<label>%s <input name="%s" disabled></label>' % (self.text(1, 1), n)]))
            return '<form>%s</form>' % ' '.join(ctl)
        if k == 'deco':
            st = rng.choice(['background:linear-gradient(red,blue);height:20px', 'background:radial-gradient(circle,#fff,#000);height:25px',
                             'background:url(pattern.png) repeat;height:12px', 'border:3px dashed green;border-radius:5px;padding:3px',
                             'background:repeating-linear-gradient(45deg,red 0 3px,blue 3px 6px);height:15px;opacity:.7',
                             'border:2px solid;border-image:url(border.svg) 2;height:10px', 'outline:1px dotted red;margin:3px',
                             'background:url(pattern.svg) no-repeat center / 20px 20px, #ff0;height:24px', 'box-shadow:none;border-top:4px double',
                             'background:url(blue.jpg);background-size:cover;height:18px;border-radius:50%', 'mix-blend-mode:multiply;background:#0ff;height:8px',
                             'overflow:hidden;height:12px;border:1px solid', 'background:conic-gradient(red,blue);height:14px'])
            return '<div style="%s">%s</div>' % (st, self.text(1, 3) if rng.random() < 0.5 else '')
        if k == 'float':
            return '<div style="float:%s;width:%dpx;border:1px solid">%s</div><p>%s</p>' % (rng.choice(['left', 'right']), rng.choice([30, 60]), self.inline(1), self.inline())
        if k == 'abs':
            return '<div style="position:relative;height:30px"><div style="position:%s;%s:%dpx;top:5px;background:#fcc">%s</div>%s</div>' % (
                rng.choice(['absolute', 'absolute', 'fixed']), rng.choice(['left', 'right']), rng.randint(0, 20), self.text(1, 2), self.text(1, 3))
        if k == 'columns':
            inner = ''.join(self.block(depth + 1) for _ in range(rng.randint(1, 3)))
            return '<div style="columns:%d;column-gap:6px;%s">%s%s</div>' % (rng.choice([2, 3]), rng.choice(['', 'column-rule:1px solid']), inner,
                                                                               '<div style="column-span:all">%s</div><p>%s</p>' % (self.text(1, 2), self.text(2, 8)) if rng.random() < 0.2 else '')
        if k == 'pre':
            return '<pre style="%s">%s\n  %s</pre>' % (rng.choice(['', 'white-space:pre-wrap', 'tab-size:2', 'text-overflow:ellipsis;overflow:hidden;white-space:nowrap;width:50px']),
                                                       self.text(1, 4), self.text(1, 4))
        if k == 'div':
            st = rng.choice(['', 'margin:5px;padding:3px;border:1px solid', 'break-inside:avoid', 'page:wide', 'width:70%;margin:auto',
                             'counter-reset:sec', 'direction:rtl', 'font-size:12px', 'box-decoration-break:clone;border:2px solid;padding:2px',
                             'max-height:40px;overflow:hidden', 'display:inline-block;width:45%', 'display:flow-root', 'margin-top:-3px'])
            if 'page:wide' in st:
                self.feats.add('named-page')
            return '<div style="%s">%s</div>' % (st, ''.join(self.block(depth + 1) for _ in range(rng.randint(1, 3))))
        if k == 'break':
            return '<div style="break-%s:%s">%s</div>' % (rng.choice(['before', 'after']), rng.choice(['page', 'left', 'right', 'avoid']), self.text(1, 3))
        if k == 'toc':
            if not self.ids:
                return '<p>%s</p>' % self.text(1, 3)
            self.feats.add('target-counter')
            return '<ul class=toc>%s</ul>' % ''.join('<li><a href="#%s"></a></li>' % i for i in self.rng.sample(self.ids, min(len(self.ids), 3)))
        if k == 'running':
            return '<div class=run>%s</div><p class=ss>%s</p>' % (self.text(1, 2), self.text(1, 2))
        if k == 'hyph':
            return '<p lang=%s style="hyphens:auto;width:%dpx;%s">%s</p>' % (rng.choice(['en', 'fr', 'de']), rng.choice([30, 50, 70]),
                                                                             rng.choice(['', 'hyphenate-character:"~"', 'text-align:justify']),
                                                                             ' '.join(rng.choice(['hyphenation', 'considerable', 'international', 'abc']) for _ in range(rng.randint(2, 6))))
        if k == 'dl':
            return '<dl><dt>%s<dd>%s<dt>%s<dd>%s</dl>' % (self.text(1, 2), self.inline(1), self.text(1, 2), self.text(1, 4))
        if k == 'transform':
            return '<div style="transform:%s;transform-origin:%s;width:60px;border:1px solid">%s</div>' % (
                rng.choice(['rotate(5deg)', 'scale(.8)', 'translate(5px,2px)', 'matrix(1,0,.2,1,0,0)']), rng.choice(['0 0', 'center', '100% 0']), self.inline(1))
        return '<p>%s</p>' % self.text()


COUNTER_STYLES = {
    'mycyc': '@counter-style mycyc { system: cyclic; symbols: "*" "+" "~"; suffix: " " }',
    'myadd': '@counter-style myadd { system: additive; additive-symbols: 10 X, 5 V, 1 I; range: 1 39 }',
    'mynum': '@counter-style mynum { system: numeric; symbols: "0" "1" "2"; pad: 3 "0"; prefix: "(" ; suffix: ") " }',
}
FONT_FACES = {
    'weasyprint': '@font-face { font-family: weasyprint; src: url(weasyprint.otf) }',
    'wpwoff': '@font-face { font-family: wpwoff; src: url(weasyprint.woff) format("woff") }',
}


def gen_doc(rng, feats=None, nblocks=None, bleed=None):
    g = Gen(rng, feats)
    body_family = g.family()
    blocks = [g.block() for _ in range(nblocks or rng.randint(2, 6))]
    size = rng.choice(['300px 220px', '400px 300px', 'A6', '250px 180px', 'A5 landscape', '500px 200px'])
    margin = rng.choice(['10px', '20px 15px', '1cm', '30px 10px 25px 12px'])
    if bleed is None:
        bleed = rng.random() < 0.25
    page = ['size:%s' % size, 'margin:%s' % margin]
    if bleed:
        page.append('bleed:%s' % rng.choice(['3px', '8px', '10px']))
        page.append('marks:%s' % rng.choice(['crop', 'cross', 'crop cross']))
        g.feats.add('bleed')
    mboxes = []
    if rng.random() < 0.6:
        mboxes.append('@bottom-center { content: counter(page) "/" counter(pages); font-size: 8px }')
        g.feats.add('counter(pages)')
    if rng.random() < 0.3:
        mboxes.append('@top-left { content: string(chap); font-size: 8px }')
        g.feats.add('string-set')
    if rng.random() < 0.2:
        mboxes.append('@top-right { content: element(hdr) }')
        g.feats.add('running-element')
    if rng.random() < 0.15:
        mboxes.append('@left-middle { content: "m"; background: #ddd; width: 6px }')
    css = ['@page { %s; %s }' % ('; '.join(page), ' '.join(mboxes))]
    if rng.random() < 0.3:
        css.append('@page :first { margin-top: 35px; @top-center { content: "first" } }')
    if rng.random() < 0.2:
        css.append('@page :left { margin-left: 25px } @page :right { margin-right: 25px }')
    if 'named-page' in g.feats:
        css.append('@page wide { size: 420px 200px; @top-center { content: "wide " counter(page) } }')
    css.append('body { font-family: %s; font-size: %dpx; line-height: %s; counter-reset: ch sec }' % (
        body_family, rng.choice([10, 10, 9, 12]), rng.choice(['1.2', '12px', 'normal', '1.5'])))
    css.append('h1 { counter-increment: ch; string-set: chap content(text); bookmark-level: 1; font-size: 1.4em; margin: .3em 0 }')
    css.append('h1::before { content: counter(ch) ". " } h2 { counter-increment: sec; font-size: 1.2em; margin: .2em 0 } '
               'h2::before { content: counter(ch) "." counter(sec, %s) " " } h3, h4 { font-size: 1em; margin: .1em 0 }'
               % rng.choice(['decimal', 'lower-alpha', 'upper-roman', 'mycyc']))
    if 'mycyc' in css[-1]:
        g.counter_styles.add('mycyc')
    if rng.random() < 0.3:
        css.append('@media screen { p { color: green; margin-left: 4px } } @media print { h2 { font-style: italic } }')
    css.append('p { margin: .3em 0 } table.t td, table.t th { border: 1px solid #777; padding: 1px 2px } '
               '.fn { float: footnote; font-size: 8px } .cnt::after { content: counters(list-item, ".") "|" counter(ch) } '
               'a.tc::after { content: " (p. " target-counter(attr(href), page) ")" } '
               'a.tt::after { content: " [" target-text(attr(href), content) "]" } '
               'ul.toc a::before { content: target-text(attr(href), content) } '
               'ul.toc a::after { content: leader(".") target-counter(attr(href), page) } '
               '.run { position: running(hdr); font-size: 8px } .ss { string-set: chap content(text) } '
               'q { quotes: auto } ::marker { color: #555 } li::marker { font-variant-numeric: tabular-nums }')
    if rng.random() < 0.15:
        css.append('::footnote-call { content: "[" counter(footnote) "]" } @page { @footnote { border-top: 1px solid; margin-top: 3px } }')
    dangling = rng.random() < 0.25      # use names that only OTHER documents define: a leak between renders would show
    for name in sorted(g.counter_styles):
        if dangling and rng.random() < 0.6:
            g.feats.add('dangling-counter-style')
            continue
        css.append(COUNTER_STYLES[name])
    for fam in sorted(g.families | {body_family}):
        if fam in FONT_FACES:
            if dangling and rng.random() < 0.6:
                g.feats.add('dangling-font-family')      # rendered with a private FontConfiguration only (see gen_step)
                continue
            css.append(FONT_FACES[fam])
            g.feats.add('@font-face')
    user_css = []
    if rng.random() < 0.4:
        user_css.append('p { color: #%s } @page { background: #f8f8f8 } h1 { text-decoration: underline }' % rng.choice(['300', '030', '003']))
        g.feats.add('user-css')
        if rng.random() < 0.3:
            user_css.append('@font-face { font-family: wpuser; src: url(weasyprint.otf) } h3 { font-family: wpuser, serif } '
                            '@counter-style ucs { system: fixed; symbols: A B C } ol { list-style: ucs }')
            g.feats.add('user-css-font-face')
    if rng.random() < 0.2:
        blocks.append('<p><a rel=attachment href="%s" title="att">attached %s</a></p>' % (rng.choice(['user.css', 'pattern.png']), g.text(1, 2)))
        g.feats.add('attachment')
    meta = ''
    if rng.random() < 0.15:
        meta = '<link rel=attachment href="%s" title="doc att">' % rng.choice(['sheet2.css', 'blue.jpg'])
        g.feats.add('attachment')
    if rng.random() < 0.5:
        meta += ('<title>%s</title><meta name=author content="%s"><meta name=dcterms.created content="2020-01-0%d">'
                '<meta name=keywords content="a, b"><meta name=generator content=gen><meta name=x-custom content=v>'
                % (g.text(1, 3), g.text(1, 2), rng.randint(1, 9)))
    html = '<html lang="%s"><head><meta charset=utf-8>%s<style>%s</style></head><body>%s</body></html>' % (
        rng.choice(['en', 'fr', 'de', 'en-GB']), meta, '\n'.join(css), '\n'.join(blocks))
    return {'html': html, 'css': user_css, 'feats': sorted(g.feats), 'bleed': bool(bleed)}


# ======================================================================================================================
def report(run, what, data, signature):
    """run.fail; open findings of C19 are matched there by signature.  A crash listed open under ANY property is counted
    (crash-freedom is C02's property; for C19 a deterministic exception is a value the monitor compares like any output);
    an unlisted crash is reported."""
    if signature.startswith('crash:'):
        listed = {k.get('signature') for k in common.load_known() if k.get('status') == 'open'}
        if signature in listed:
            run.known_hits.append(({'signature': signature}, what))
            return False
    return run.fail(what, data, signature=signature)


def crash_signature(st, o):
    if st != 'exc':
        return 'timeout'
    site = (o or {}).get('site')
    return 'crash:%s' % (tuple(site) if site else None,)


def has_marks(doc):
    return 'marks:' in doc['html'] and 'bleed:' in doc['html']


# ======================================================================================================================
# stream 6: the differential monitor.  A *key* is (document, option profile, zoom); every observation made for one key
# - in a fresh interpreter under any hash seed, at any position of any history, with shared or fresh HTML / CSS /
# FontConfiguration / cache objects, through any sink - must be the same value.

ZOOMS = [0.1, 0.5, 1, 2, 3.7, 10]
SINKS = ['bytes', 'bytes', 'fileobj', 'path', 'pathlib']
IMG_OPTS = [{}, {}, {'optimize_images': True}, {'jpeg_quality': 60}, {'optimize_images': True, 'jpeg_quality': 30}, {'dpi': 96}, {'dpi': 30},
            {'dpi': 150, 'jpeg_quality': 50}]


def gen_profiles(rng, doc):
    """Two option profiles per document: the defaults and a random selection; the image options differ between profiles and
    documents, and caches are shared across them."""
    img = dict(rng.choice(IMG_OPTS))
    p0 = {'pdf_identifier': 'c19', **img}
    p1 = {'pdf_identifier': 'c19', **dict(rng.choice(IMG_OPTS))}
    if rng.random() < 0.5:
        p1['pdf_forms'] = True
    if rng.random() < 0.4:
        p1['uncompressed_pdf'] = True
    if rng.random() < 0.3:
        p1['pdf_variant'] = rng.choice(['pdf/a-1b', 'pdf/a-2u', 'pdf/a-3b', 'pdf/a-4u', 'pdf/ua-1', 'debug'])
    if rng.random() < 0.2:
        p1['pdf_version'] = rng.choice(['1.4', '2.0'])
    if rng.random() < 0.2:
        p1['srgb'] = True
    if rng.random() < 0.3:
        p1['custom_metadata'] = True
    if rng.random() < 0.2:
        p1['full_fonts'] = True
    if rng.random() < 0.2:
        p1['hinting'] = True
    if rng.random() < 0.2:
        p1['presentational_hints'] = True
    if rng.random() < 0.15:
        p1['media_type'] = 'screen'
    return [p0, p1], img


def gen_step(rng, d, prof, docs, mode):
    step = {'doc': d, 'profile': prof, 'opts': docs[d]['profiles'][prof],
            'html': rng.choice(['fresh', 'shared', 'shared']) if mode != 'one-html' else 'shared',
            'fc': rng.choice(['none', 'fresh', 'shared', 'shared']),
            'cache': rng.choice(['none', 'fresh', 'shared', 'shared', 'disk']),
            'api': rng.choice(['write', 'render', 'render']),
            'sink': rng.choice(SINKS),
            'zoom': 1 if rng.random() < 0.8 else rng.choice(ZOOMS)}
    if step['fc'] == 'shared' and 'dangling-font-family' in docs[d]['feats']:
        step['fc'] = 'fresh'      # a shared FontConfiguration is a registry of @font-face rules by design
    if step['fc'] == 'none' and any('@font-face' in c for c in docs[d]['css']):
        step['fc'] = 'fresh'      # CSS objects with @font-face need the FontConfiguration of the render (documented)
    step['css'] = rng.choice(['fresh', 'shared']) if step['fc'] == 'shared' else 'fresh'
    if step['api'] == 'render':
        if rng.random() < 0.3:
            step['copy_all'] = True
        if rng.random() < 0.4:
            step['rewrite'] = rng.choice(['same', 'other-options-between'])
    return step


def gen_history(rng, hid, docs):
    n = rng.randint(2, 6)
    mode = rng.choice(['one-html', 'one-doc', 'mixed', 'mixed', 'alternate', 'alternate'])
    nd = len(docs)
    if mode in ('one-html', 'one-doc'):
        pool = [rng.randrange(nd)]
    elif mode == 'alternate':
        pool = rng.sample(range(nd), 2)
        pairs = [(i, j) for i in range(nd) for j in docs[i].get('siblings', [])]
        if pairs and rng.random() < 0.7:
            pool = list(rng.choice(pairs))
    else:
        pool = [rng.randrange(nd) for _ in range(n)]
    steps = []
    for i in range(n):
        d = pool[i % len(pool)] if mode == 'alternate' else rng.choice(pool)
        # a cache dict / cache folder is shared by renders with any image options, orientations and dpi (2960b4c, 6683f8f, 10a3ba4)
        steps.append(gen_step(rng, d, rng.choice([0, 0, 1]), docs, mode))
    return {'id': hid, 'mode': mode, 'steps': steps}


def step_key(st):
    return (st['doc'], st['profile'], st['zoom'])


def layout_key(st):
    return (st['doc'], st['profile'])


def _subjob(docs, histories):
    """Restrict a job to the documents it uses (for replay files)."""
    used = sorted({s['doc'] for h in histories for s in h['steps']})
    remap = {d: i for i, d in enumerate(used)}
    hs = []
    for h in histories:
        hs.append({'id': h['id'], 'mode': h.get('mode'), 'steps': [dict(s, doc=remap[s['doc']], orig_doc=s.get('orig_doc', s['doc'])) for s in h['steps']]})
    return {'docs': [docs[d] for d in used], 'histories': hs}


def classify_fc(doc):
    return '@font-face' in doc['html'] or any('@font-face' in c for c in doc.get('css', []))


def make_sibling(d):
    """The same document without its @font-face / @counter-style rules: it shares every style-like cache key with the
    original and must not see the original's fonts or counter styles through anything but a shared FontConfiguration."""
    import re
    html = re.sub(r'@font-face\s*\{[^}]*\}', '', d['html'])
    html = re.sub(r'@counter-style\s+\w+\s*\{[^}]*\}', '', html)
    return {'html': html, 'css': [c for c in d['css'] if '@font-face' not in c], 'bleed': d['bleed'],
            'feats': sorted(set(d['feats']) - {'@font-face', 'user-css-font-face'} | {'dangling-font-family', 'dangling-counter-style', 'sibling'}),
            'profiles': d['profiles'], 'imgopts': d['imgopts']}


def build_monitor(rng, ndocs, nhist, njobs):
    docs = []
    nbase = ndocs - ndocs // 4
    for i in range(nbase):
        d = gen_doc(rng)
        d['profiles'], d['imgopts'] = gen_profiles(rng, d)
        docs.append(d)
    with_rules = [i for i in range(nbase) if '@font-face' in docs[i]['html'] or '@counter-style' in docs[i]['html']]
    for i in (with_rules * 4)[:ndocs - nbase]:
        docs.append(make_sibling(docs[i]))
        docs[-1]['sibling_of'] = i
        docs[i].setdefault('siblings', []).append(len(docs) - 1)
    jobs = []
    # (a) fresh interpreter, one render, two hash seeds per key
    k = 0
    for d in range(ndocs):
        for prof in (0, 1):
            seeds = (k % 4, (k + 1 + k // 4) % 4)
            if seeds[0] == seeds[1]:
                seeds = (seeds[0], (seeds[0] + 2) % 4)
            for s in seeds:
                st = {'doc': d, 'profile': prof, 'opts': docs[d]['profiles'][prof], 'html': 'fresh', 'css': 'fresh',
                      'fc': 'fresh' if any('@font-face' in c for c in docs[d]['css']) else 'none', 'cache': 'none', 'api': 'render', 'sink': 'bytes', 'zoom': 1}
                jobs.append({'hashseed': s, 'kind': 'fresh', 'histories': [{'id': 'fresh-%d-%d-%d' % (d, prof, s), 'steps': [st]}]})
            k += 1
    # (b) histories, several per interpreter (the interpreter's earlier histories are part of the history)
    hists = [gen_history(rng, 'h%d' % i, docs) for i in range(nhist)]
    for j in range(njobs):
        jobs.append({'hashseed': j % 4, 'kind': 'histories', 'histories': hists[j::njobs]})
    cases = [{'hashseed': j['hashseed'], 'timeout': 600, 'job': _subjob(docs, j['histories'])} for j in jobs]
    return docs, jobs, cases


def repo_state():
    """HEAD and a hash of the uncommitted changes of the source tree under test (mtimes when it is not a git tree)."""
    import hashlib
    rc1, head = common.sh(['git', '-C', common.REPO, 'rev-parse', 'HEAD'], timeout=60)
    rc2, diff = common.sh(['git', '-C', common.REPO, 'diff', 'HEAD', '--', 'weasyprint'], timeout=60)
    if rc1 == 0 and rc2 == 0:
        return head.strip() + ':' + hashlib.sha1(diff.encode('utf-8', 'replace')).hexdigest()
    h = hashlib.sha1()
    for root, _, files in sorted(os.walk(os.path.join(common.REPO, 'weasyprint'))):
        for f in sorted(files):
            if f.endswith('.py'):
                st = os.stat(os.path.join(root, f))
                h.update(('%s %d %d\n' % (os.path.join(root, f), st.st_mtime_ns, st.st_size)).encode())
    return h.hexdigest()


def stable_batch(fn, attempts=3):
    """Run a differential batch; the interpreters it compares must all have seen one source tree: when the tree changed
    between start and end the batch is discarded and run again.  Returns (result, number of discarded batches)."""
    discarded = 0
    while True:
        before = repo_state()
        res = fn()
        if repo_state() == before or discarded + 1 >= attempts:
            return res, discarded
        discarded += 1


def run_zygotes(cases, parallel=4):
    """cases: [{'hashseed': s, 'job': job}] -> [(status, result)] in order.  One freshly started interpreter per hash seed
    imports weasyprint once and forks a copy of itself for every job (impl_c19.zygote): each job runs in the state of
    a fresh interpreter without paying the import again."""
    seeds = sorted({c['hashseed'] for c in cases})
    def weight(c):      # longest jobs first
        j = c['job']
        return -(sum(len(h['steps']) for h in j.get('histories', [])) + sum(x.get('ncalls', 1) for x in j.get('reuse', [])) +
                 len(j.get('direct', {}).get('cases', [])) / 50.0)
    order = {s: sorted([i for i, c in enumerate(cases) if c['hashseed'] == s], key=lambda i: weight(cases[i])) for s in seeds}
    groups = [{'hashseed': s, 'jobs': [cases[i]['job'] for i in order[s]], 'parallel': parallel,
               'timeout': 1500, 'job_timeout': 400} for s in seeds]
    outs = common.run_impl('impl_c19', 'zygote', groups, limit=1600, chunksize=1)
    res = [None] * len(cases)
    for g, (st, o) in zip(groups, outs):
        idx = order[g['hashseed']]
        for k, i in enumerate(idx):
            res[i] = ('ok', o[k]) if st == 'ok' else (st, {'crashed': True, 'attempts': [o]})
    return res


def stream_monitor(run, rng, ndocs, nhist, njobs):
    docs, jobs, cases = build_monitor(rng, ndocs, nhist, njobs)
    # the interpreters of one run must all see the same source tree: if /repo is edited meanwhile, run again (once)
    outs = yield ('jobs', cases)
    reruns = 0
    by_key, by_layout = {}, {}
    nsteps = 0
    seen = set()
    hash_probes = {}
    mutated_reports = 0
    for ji, (job, case, (st, o)) in enumerate(zip(jobs, cases, outs)):
        if st != 'ok' or o.get('crashed'):
            run.oblige('monitor:job-%d-ran' % ji, False, 'interpreter failed: %s' % (o,))
            continue
        hash_probes.setdefault(job['hashseed'], set()).add(o['hash_probe'])
        if o['module_mutated']:
            run.fail('module-level state modified by rendering: %s' % o['module_mutated'],
                     {'stream': 'monitor', 'clause': 'module-state', 'job': case, 'what': o['module_mutated']},
                     signature='c19:module-state-mutated')
        for h, ho in zip(job['histories'], o['histories']):
            for si, (step, obs) in enumerate(zip(h['steps'], ho['steps'])):
                nsteps += 1
                where = {'job': ji, 'hashseed': job['hashseed'], 'history': h['id'], 'step': si, 'kind': job['kind'],
                         'cfg': {k: step.get(k) for k in ('html', 'css', 'fc', 'cache', 'api', 'sink', 'copy_all', 'rewrite')}}
                val = ('exc', tuple(obs['exc']['site'] or ()), obs['exc']['type']) if 'exc' in obs else ('pdf', obs['pdf'], obs['len'])
                by_key.setdefault(step_key(step), []).append((val, where))
                if 'layout' in obs:
                    by_layout.setdefault(layout_key(step), []).append((tuple(obs['layout']), where))
                seen.add((step['html'], step['css'], step['fc'], step['cache'], step['api'], step['sink'], step['zoom'] != 1,
                          step['profile'], 'exc' in obs))
                doc = docs[step['doc']]
                mut = list(obs['mutated'])
                if obs.get('fc_files_added') and not classify_fc(doc):
                    mut.append('font_config.files')
                if mut and mutated_reports < 3:
                    mutated_reports += 1
                    run.fail('rendering modified caller-owned objects: %s' % mut,
                             {'stream': 'monitor', 'clause': 'inputs-not-mutated', 'job': case, 'where': where, 'mutated': mut},
                             signature='c19:input-mutated:%s' % mut[0])
                if obs.get('rewrite_same') is False:
                    report(run, 'the same Document written twice with the same options gives different bytes',
                           {'stream': 'monitor', 'clause': 'rewrite', 'job': case, 'where': where},
                           'c19:document-rewrite-differs')
                if obs.get('ret_none') is False:
                    run.fail('write_pdf(target) returned a value', {'stream': 'monitor', 'clause': 'sink-return', 'job': case, 'where': where},
                             signature='c19:sink-return')
    reported = 0
    for table, clause in ((by_layout, 'layout'), (by_key, 'pdf-bytes')):
        for key, vals in sorted(table.items()):
            distinct = {}
            for v, w in vals:
                distinct.setdefault(v, []).append(w)
            if len(distinct) > 1 and reported < 3:
                reported += 1
                groups = sorted(distinct.items(), key=lambda kv: -len(kv[1]))
                a, b = groups[0][1][0], groups[1][1][0]
                sig = 'c19:nondeterministic-%s' % clause
                report(run, '%s of one input differs between executions: key (doc %d, profile %d%s): %s [%s] vs %s [%s]' % (
                    clause, key[0], key[1], ', zoom %s' % key[2] if len(key) > 2 else '', str(groups[0][0])[:80], a, str(groups[1][0])[:80], b),
                    {'stream': 'monitor', 'clause': clause, 'key': list(key), 'a': a, 'b': b,
                     'job_a': cases[a['job']], 'job_b': cases[b['job']], 'doc': docs[key[0]]}, sig)
    ok_seeds = all(len(v) == 1 for v in hash_probes.values()) and len({tuple(v) for v in hash_probes.values()}) == len(hash_probes)
    run.oblige('monitor:hash-seeds-effective', ok_seeds and len(hash_probes) >= 4,
               'hash("c19-probe") per PYTHONHASHSEED: %s' % {k: sorted(v) for k, v in hash_probes.items()})
    multi = sum(1 for v in by_key.values() if len(v) > 1)
    run.count('monitor', nsteps, [('key',) + k for k in by_key] + [('cfg',) + tuple(map(str, s)) for s in seen],
              samples=[docs[0]['html'][:700]])
    feats = {}
    for d in docs:
        for f in d['feats']:
            feats[f] = feats.get(f, 0) + 1
    run.stream_info('monitor', documents=ndocs, histories=nhist, interpreters=len(jobs), renders=nsteps, keys=len(by_key),
                    batches_discarded_because_the_source_tree_changed=reruns, source_tree=repo_state()[:20],
                    interpreter_crashes_retried=sum(len(o.get('crashes_before', [])) for st, o in outs if st == 'ok' and isinstance(o, dict)),
                    keys_observed_more_than_once=multi, configurations=len(seen), features=feats,
                    rule='random documents (grammar above) x 2 option profiles; every key rendered once in a fresh interpreter under two of '
                         'PYTHONHASHSEED 0..3 and again inside histories of 2..6 renders (one HTML object re-rendered, one document, '
                         'alternating, mixed) with shared/fresh HTML, CSS, FontConfiguration, cache dict/DiskCache objects, write_pdf or '
                         'render+write, copy(all pages), 4 sinks, zoom; compared: PDF bytes (sha256), layout fingerprints (exact), '
                         'exception sites; snapshots of HTML tree / CSS objects / options / font configuration / module state')
    return docs


# ======================================================================================================================
# stream 1: image cache, direct calls

PRE_CACHE = ('From Coq Require Import ZArith List Bool.\nRequire Import WV.model.C19Cache.\nImport ListNotations.\n'
             'Open Scope Z_scope.\n')
NK, NM, NU = 7, 3, 6


def termlit(t):
    return '(%d, %d, %d, [%s])' % (t[0], t[1], t[2], '; '.join(str(x) for x in t[3]))


def gen_cache_history(rng, kind):
    """kind: 'one-key' (one key part and mime type per URL), 'keys' (several orientations / image options of one URL),
    'mimes' (several forced mime types of one key), 'resample' (dpi ratios 1/2, 1/4 at write time), 'all'."""
    n = rng.randint(2, 16)
    urls = rng.sample(range(NU), rng.randint(1, 4))
    key = {u: rng.randrange(NK) for u in urls}
    mime = {u: rng.randrange(NM) for u in urls}
    h = []
    got = []
    for _ in range(n):
        u = rng.choice(urls)
        if rng.random() < 0.55 or not got:
            k, m = key[u], mime[u]
            if kind in ('keys', 'all') and rng.random() < 0.5:
                k = rng.randrange(NK)
            if kind in ('mimes', 'all') and rng.random() < 0.5:
                m = rng.randrange(NM)
            h.append(['get', u, k, m])
            got.append((u, k))
        else:
            u, k = rng.choice(got) if rng.random() < 0.9 else (u, rng.randrange(NK))
            r = rng.choice([2, 4]) if kind in ('resample', 'all') and rng.random() < 0.6 else 1
            h.append(['emit', u, k, r])
    return h


def history_class(h):
    keys, mimes = {}, {}
    for op in h:
        if op[0] == 'get':
            keys.setdefault(op[1], set()).add(op[2])
            mimes.setdefault((op[1], op[2]), set()).add(op[3])
    out = []
    if any(len(v) > 1 for v in keys.values()):
        out.append('keys')
    if any(len(v) > 1 for v in mimes.values()):
        out.append('mimes')
    if any(op[0] == 'emit' and op[3] != 1 for op in h):
        out.append('resample')
    return '+'.join(out) or 'one-key'


def stream_cache(run, rng, n):
    # the former refutation witnesses first: they must be transparent now
    cases = [{'history': [['get', 0, 0, 0], ['get', 0, 2, 0], ['emit', 0, 0, 1], ['emit', 0, 2, 1]]},        # two orientations
             {'history': [['get', 5, 3, 0], ['get', 5, 0, 0], ['get', 5, 5, 0], ['emit', 5, 5, 1], ['emit', 5, 0, 1]]},   # image options
             {'history': [['get', 0, 0, 0], ['emit', 0, 0, 4], ['get', 0, 0, 0], ['emit', 0, 0, 1], ['emit', 0, 0, 4]]},   # dpi down-sampling
             {'history': [['get', 4, 0, 0], ['get', 4, 0, 1], ['get', 3, 0, 0], ['get', 3, 0, 0], ['emit', 3, 0, 1], ['get', 4, 1, 0]]},   # failures
             {'history': [['get', 1, 0, 0], ['get', 1, 0, 1], ['get', 1, 0, 2], ['emit', 1, 0, 2]]}]     # forced mime types of one key
    kinds = ['one-key', 'keys', 'mimes', 'resample', 'all', 'all']
    for i in range(n):
        cases.append({'history': gen_cache_history(rng, kinds[i % len(kinds)])})
    outs = yield ('direct', 'cache_history', cases, 24)
    table = None
    coq, kept = [], []
    for c, (st, o) in zip(cases, outs):
        if st != 'ok':
            run.fail('get_image_from_uri / get_x_object raised: %s' % (o,), {'stream': 'cache-direct', 'case': c, 'outcome': o},
                     signature='c19:cache-direct-raise')
            continue
        table = table or o
        hl = '; '.join(('Get %d %d %d' % tuple(op[1:])) if op[0] == 'get' else ('Emit %d %d %d' % tuple(op[1:])) for op in c['history'])
        ol = '; '.join(('IGet (%d) (%d)' % (x[1], x[2])) if x[0] == 'get' else ('IEmit (%d)' % x[1]) for x in o['obs'])
        coq.append('([%s], [%s], %d)' % (hl, ol, o['nfetch']))
        kept.append((c, o))
    if table is None:
        run.oblige('corr:cache-direct', False, 'no case ran')
        return
    # premise of C19_cache_is_transparent_when_mime_is_ignored, measured: the loaded image does not depend on the mime type
    by = {}
    for (u, k, m, rs), v in table['tget'] + table['temit']:
        by.setdefault((u, k, tuple(rs), len(rs) == 0 and (u, k, m, rs) in [t for t, _ in table['tget']]), set())
    loads, embeds = {}, {}
    for (u, k, m, rs), v in table['tget']:
        loads.setdefault((u, k), set()).add(v)
    for (u, k, m, rs), v in table['temit']:
        embeds.setdefault((u, k, tuple(rs)), set()).add(v)
    dep = [q for q, v in list(loads.items()) + list(embeds.items()) if len(v) > 1]
    okm = {}
    for u, k, m in table['ok']:
        okm.setdefault((u, k), set()).add(m)
    dep += [q for q, v in okm.items() if len(v) not in (0, NM)]
    run.oblige('premise:decode-ignores-forced-mime(cold loads of every (URL, key part) under the 3 forced mime types agree)', not dep,
               'keys whose load depends on the forced mime type: %s' % dep[:5])
    pre = PRE_CACHE + 'Definition FAILS : list Z := [%s].\nDefinition OK : list (Z * Z * Z) := [%s].\n' % (
        '; '.join(map(str, table['fails'])), '; '.join('(%d, %d, %d)' % tuple(p) for p in table['ok']))
    pre += 'Definition TGET : list (term * Z) := [%s].\n' % ';\n '.join('(%s, %d)' % (termlit(t), v) for t, v in table['tget'])
    pre += 'Definition TEMIT : list (term * Z) := [%s].\n' % ';\n '.join('(%s, %d)' % (termlit(t), v) for t, v in table['temit'])
    pre += ('Definition judge (c : list (op Z Z Z Z) * list iobs * Z) : nat :=\n'
            '  cache_judge (FAILS, OK, TGET, TEMIT, fst (fst c), snd (fst c), snd c).\n')
    try:
        masks = common.eval_cases('c19cache', pre, 'list (op Z Z Z Z) * list iobs * Z', coq, 'judge')
    except RuntimeError as exc:
        run.oblige('corr:cache-direct', False, str(exc))
        return
    mism = [(c, o['obs']) for (c, o), m in zip(kept, masks) if m & 1]
    run.oblige('corr:cache-direct(model run on the measured cold values vs get_image_from_uri/get_x_object on one dict)',
               not mism, 'first disagreements: %s' % mism[:2])
    classes = {}
    reported = 0
    for (c, o), m in zip(kept, masks):
        k = history_class(c['history'])
        classes.setdefault(k, [0, 0])
        classes[k][0] += 1
        if m & 2:
            classes[k][1] += 1
            reported += 1
            if reported <= 3:
                run.fail('image cache: a value obtained through the shared dictionary differs from the cold load (history class %s)' % k,
                         {'stream': 'cache-direct', 'case': c, 'impl': o['obs']}, signature='c19:cache-not-transparent')
    run.count('cache-direct', len(kept), [tuple(map(tuple, c['history'])) for c, _ in kept], samples=[kept[0][0], kept[-1][0]])
    run.stream_info('cache-direct', classes={k: {'cases': v[0], 'not_transparent': v[1]} for k, v in classes.items()},
                    table_terms=len(table['tget']) + len(table['temit']),
                    rule='histories of 2..16 Get/Emit operations on one dict over 6 URLs (png, jpeg with exif, svg, undecodable, '
                         'unfetchable, jpeg) x 7 key parts (orientation from-image/none/90deg/flip, dpi, optimize_images, jpeg_quality) x 3 '
                         'forced mime types x dpi ratios 1, 1/2, 1/4; the values of all data terms are measured with cold isolated '
                         'calls; judged in Coq (cache_judge): bit0 model vs implementation (objects identity, values, number of fetcher '
                         'calls), bit1 value differs from the cold load: must be 0 for every history')


# ======================================================================================================================
# stream 2: resource names, direct calls under four hash seeds

PRE_NAMES = ('From Coq Require Import ZArith List Bool.\nRequire Import WV.model.C19Names.\nImport ListNotations.\n'
             'Open Scope Z_scope.\n')


def namelit(n):
    k = n[0]
    if k == 'A':
        return '(NA %s (%s))' % ('true' if n[1] else 'false', n[2])
    if k == 'I':
        return '(NI (%d) %s)' % (n[1], 'true' if n[2] else 'false')
    return '(%s %d%%nat)' % ({'S': 'NS', 'X': 'NX', 'P': 'NP', 'Sh': 'NSh'}[k], n[1])


def gen_calls(rng):
    n = rng.randint(1, 25)
    nstreams = 1
    calls = []
    for _ in range(n):
        sid = rng.randrange(nstreams) if rng.random() < 0.8 else 0
        k = rng.choice(['alpha', 'alpha', 'state', 'group', 'pattern', 'shading', 'image', 'image', 'image'])
        if k == 'alpha':
            calls.append(['alpha', sid, rng.choice([0, 1, 5, 5, 7]), rng.random() < 0.4])
        elif k == 'image':
            calls.append(['image', sid, rng.choice([11, 11, 42, 7]), rng.random() < 0.5, rng.choice([1, 2, 3, 5, 8, 13, 21])])
        else:
            calls.append([k, sid])
            if k in ('group', 'pattern'):
                nstreams += 1
    return calls


def calllit(c):
    k = c[0]
    if k == 'alpha':
        return 'CSetAlpha %d%%nat (%d) %s' % (c[1], c[2], 'true' if c[3] else 'false')
    if k == 'image':
        return 'CAddImage %d%%nat (%d) %s (%d)' % (c[1], c[2], 'true' if c[3] else 'false', c[4])
    return '%s %d%%nat' % ({'state': 'CSetState', 'group': 'CAddGroup', 'pattern': 'CAddPattern', 'shading': 'CAddShading'}[k], c[1])


def stream_names(run, rng, n):
    cases = [{'calls': [['alpha', 0, 5, False], ['group', 0], ['state', 1], ['image', 1, 42, True, 3], ['image', 0, 42, True, 7],
                        ['pattern', 0], ['shading', 2], ['image', 0, 42, True, 1], ['state', 0], ['group', 1]]}]
    cases += [{'calls': gen_calls(rng)} for _ in range(n)]
    font_docs = [{'html': '<style>@font-face{font-family:weasyprint;src:url(weasyprint.otf)}</style>'
                          '<p style="font-family:weasyprint">abc <b style="font-family:DejaVu Sans">def</b> <i style="font-family:serif">ghi</i>'
                          '<span style="font-family:monospace;font-weight:bold">jkl</span>'}]
    jobs = [{'hashseed': s, 'timeout': 300, 'job': {'docs': [], 'histories': [], 'module_snapshot': False,
                                                    'direct': {'fn': 'names_case', 'cases': cases}}} for s in range(4)]
    jobs += [{'hashseed': s, 'timeout': 300, 'job': {'docs': [], 'histories': [], 'module_snapshot': False,
                                                     'direct': {'fn': 'font_hashes', 'cases': font_docs}}} for s in range(4)]
    outs = yield ('jobs', jobs)
    discarded = 0
    res = []
    for j, (st, o) in zip(jobs, outs):
        if st != 'ok' or o.get('crashed'):
            run.oblige('names:job-ran', False, str(o)[:2000])
            return
        res.append(o['direct'])
    names_runs, font_runs = res[:4], res[4:]
    differ = [i for i in range(len(cases)) if any(json.dumps(r[i]) != json.dumps(names_runs[0][i]) for r in names_runs[1:])]
    for i in differ[:2]:
        report(run, 'resource names differ between hash seeds', {'stream': 'names-direct', 'case': cases[i],
                                                                 'outputs': [r[i] for r in names_runs]}, 'c19:names-depend-on-hash-seed')
    fdiff = any(json.dumps(r) != json.dumps(font_runs[0]) for r in font_runs[1:])
    if fdiff:
        report(run, 'font names differ between hash seeds', {'stream': 'names-direct', 'outputs': font_runs}, 'c19:font-names-depend-on-hash-seed')
    # font naming: 6 letters from md5, family after '+'
    import hashlib
    fok = True
    for st, o in font_runs[0]:
        fok = fok and st == 'ok' and len(o['fonts']) >= 3 and all(len(f[0]) == 6 and f[0].isalpha() and f[0].isupper() and
                                                                 f[1].startswith('/' + f[0] + '+') for f in o['fonts']) and \
            len({f[0] for f in o['fonts']}) == len(o['fonts'])
    run.oblige('names:font-hash-shape(6 upper-case letters, BaseFont = hash+family, distinct)', fok, str(font_runs[0])[:600])
    coq, kept = [], []
    for c, (st, o) in zip(cases, names_runs[0]):
        if st != 'ok':
            run.fail('Stream naming call raised %s' % (o,), {'stream': 'names-direct', 'case': c}, signature='c19:names-raise')
            continue
        if o.get('bad_sid'):
            continue
        dl = '; '.join('(%s)' % ', '.join('[%s]' % '; '.join(namelit(x) for x in cat) for cat in d) for d in o['dicts'])
        il = '; '.join('(%s, Some (%d))' % (namelit(nm), r) for nm, r in o['images'])
        coq.append('([%s], [%s], [%s], [%s])' % ('; '.join(calllit(x) for x in c['calls']), '; '.join(namelit(x) for x in o['names']), dl, il))
        kept.append((c, o))
    try:
        masks = common.eval_cases('c19names', PRE_NAMES, 'ncase', coq, 'names_judge')
        mism = [(c, o) for (c, o), m in zip(kept, masks) if m & 1]
        run.oblige('corr:names-direct(model vs Stream.set_alpha/set_state/add_group/add_pattern/add_shading/add_image)', not mism,
                   'first disagreements: %s' % mism[:2])
        for (c, o), m in zip(kept, masks):
            if m & 2:
                report(run, 'image dpi ratio depends on the iteration order of the set', {'stream': 'names-direct', 'case': c, 'impl': o},
                       'c19:ratio-depends-on-set-order')
                break
    except RuntimeError as exc:
        run.oblige('corr:names-direct', False, str(exc))
    orders = {json.dumps(o['set_orders']) for r in names_runs for st, o in r if st == 'ok' and 'set_orders' in o}
    run.count('names-direct', len(kept) * 4 + 4, [tuple(map(tuple, c['calls'])) for c, _ in kept], samples=[kept[1][0] if len(kept) > 1 else kept[0][0]])
    run.stream_info('names-direct', hash_seeds=4, batches_discarded_because_the_source_tree_changed=discarded, distinct_set_iteration_orders_seen=len(orders),
                    rule='1..25 random naming calls on real Stream objects (clones through add_group/add_pattern share the images '
                         'table), executed in 4 fresh interpreter states (one interpreter per PYTHONHASHSEED 0..3, forked per job): outputs identical, and equal to the model '
                         '(names_judge, Coq); fonts of a render with 4 families: hash/name identical under the 4 seeds')


# ======================================================================================================================
# stream 3: zoom

PRE_ZOOM = ('From Coq Require Import QArith List Bool.\nRequire Import WV.model.C19Pdf.\nImport ListNotations.\nOpen Scope Q_scope.\n')


def ql(xs):
    return '[%s]' % '; '.join(qlit(Fraction(x)) for x in xs)


def stream_zoom_direct(run, rng, n):
    cases = []
    zs = [Fraction(1, 10), Fraction(1, 2), Fraction(1), Fraction(2), Fraction(37, 10), Fraction(10), Fraction(3, 4), Fraction(1, 4), Fraction(8)]
    for i in range(n):
        z = zs[i % len(zs)] if i < 4 * len(zs) else Fraction(rng.randint(1, 100), rng.choice([1, 2, 4, 8, 10, 3]))
        bl = [str(Fraction(rng.choice([0, 0, 1, 3, 5, 8, 13, 20, 40]), rng.choice([1, 1, 2]))) for _ in range(4)]
        if rng.random() < 0.4:
            bl = [bl[0]] * 4
        w, h = rng.choice([100, 200, 595, 333]), rng.choice([50, 100, 842, 271])
        links = [[str(Fraction(rng.randint(0, w), rng.choice([1, 2]))), str(Fraction(rng.randint(0, h))), str(Fraction(rng.randint(0, w))),
                  str(Fraction(rng.randint(0, h), rng.choice([1, 4])))] for _ in range(rng.randint(0, 3))]
        pts = [[str(Fraction(rng.randint(0, w))), str(Fraction(rng.randint(0, h), rng.choice([1, 2])))] for _ in range(rng.randint(0, 2))]
        cases.append({'zoom': str(z), 'pages': [{'w': str(w), 'h': str(h), 'bleed': bl, 'links': links, 'anchors': pts,
                                                 'bookmarks': [[str(rng.randint(0, w)), str(rng.randint(0, h))]]}]})
    outs = yield ('direct', 'zoom_direct', cases, 24)
    coq, kept = [], []
    for c, (st, o) in zip(cases, outs):
        if st != 'ok':
            run.fail('generate_pdf raised on stub pages: %s' % (o,), {'stream': 'zoom-direct', 'case': c}, signature='c19:zoom-direct-raise')
            continue
        p, r = c['pages'][0], o['pages'][0]
        z = Fraction(c['zoom'])
        dyadic = (z.denominator & (z.denominator - 1)) == 0 and all((Fraction(b).denominator & (Fraction(b).denominator - 1)) == 0 for b in p['bleed'])
        eps = Fraction(0) if dyadic else Fraction(1, 10 ** 12)
        rects = ['((%s, %s, %s, %s), %s)' % (*[qlit(Fraction(x)) for x in l], ql(rr)) for l, rr in zip(p['links'], r['rects'])]
        rects += ['((%s, %s, %s, %s), %s)' % (qlit(Fraction(a[0])), qlit(Fraction(a[1])), qlit(Fraction(a[0])), qlit(Fraction(a[1])), ql(d + d))
                  for a, d in zip(p['anchors'], r['dests'])]
        rects += ['((%s, %s, %s, %s), %s)' % (qlit(Fraction(a[0])), qlit(Fraction(a[1])), qlit(Fraction(a[0])), qlit(Fraction(a[1])), ql(d + d))
                  for a, d in zip(p['bookmarks'], r['outlines'])]
        # the model is given the float actually used as zoom (exact), so only arithmetic rounding is tolerated
        coq.append('(%s, pmk %s %s %s %s %s %s, %s, %s, %s, %s, %s, [%s])' % (
            qlit(Fraction(o['zoom_float'])), qlit(Fraction(p['w'])), qlit(Fraction(p['h'])), *[qlit(Fraction(b)) for b in p['bleed']],
            qlit(eps), ql(r['media']), ql(r['trim']), ql(r['bleed']), ql(r['ctm']), '; '.join(rects)))
        kept.append((c, o, len(rects)))
    try:
        masks = common.eval_cases('c19zoom', PRE_ZOOM, 'zcase', coq, 'zoom_judge')
        mism = [(c, o) for (c, o, _), m in zip(kept, masks) if m & 1]
        run.oblige('corr:zoom-direct(model vs generate_pdf on stub pages: MediaBox, TrimBox, BleedBox, CTM, Rects, destinations)', not mism,
                   'first disagreements: %s' % mism[:2])
        for (c, o, _), m in zip(kept, masks):
            if m & 2:
                report(run, 'a page coordinate at zoom z is not z times the zoom-1 coordinate', {'stream': 'zoom-direct', 'case': c, 'impl': o},
                       'c19:zoom-not-linear')
                break
        run.count('zoom-direct', len(kept), [(c['zoom'], tuple(c['pages'][0]['bleed']), c['pages'][0]['w'], n) for c, _, n in kept],
                  samples=[kept[0][0]])
        run.stream_info('zoom-direct', rule='generate_pdf on stub pages with rational sizes/bleeds (0..40 px, so both sides of the 10 pt '
                        'BleedBox cap), 0..3 link rectangles, anchors, a bookmark; zoom in {0.1, 0.5, 1, 2, 3.7, 10, ...} and random n/d; '
                        'floats read back exactly; judged in Coq (zoom_judge) with tolerance 0 for dyadic inputs, 1e-12 otherwise')
    except RuntimeError as exc:
        run.oblige('corr:zoom-direct', False, str(exc))


def _close(a, b, z):
    return a is not None and b is not None and abs(a - b) <= 1.6e-6 * (1 + z) + 1e-9 * abs(b)


def stream_zoom_render(run, rng, n):
    docs = []
    for i in range(n):
        d = gen_doc(rng, nblocks=rng.randint(2, 4), bleed=(i % 2 == 0),
                    feats=['p', 'h', 'form', 'img', 'svg', 'deco', 'table', 'flex', 'toc', 'list', 'transform', 'abs'])
        d['opts'] = {'pdf_forms': True} if i % 3 == 0 else {}
        d['zooms'] = ZOOMS
        docs.append(d)
    outs = yield ('direct', 'zoom_render', docs, 1)
    nboxes, nannots = judge_zoom_render(run, docs, outs)
    run.count('zoom-render', len(docs) * len(ZOOMS) * 2, [('doc', i) for i in range(len(docs))], samples=[docs[0]['html'][:400]])
    run.stream_info('zoom-render', page_boxes_compared=nboxes, annotations_compared=nannots, zooms=ZOOMS,
                    rule='documents with bleed/marks, links, forms (pdf_forms), bookmarks, images, SVG rendered at zoom 0.1, 0.5, 1, 2, 3.7, '
                         '10; read back with pdfread: MediaBox/TrimBox, every annotation Rect, named and outline destinations and the CTM '
                         'of the first two cm are z times their zoom-1 value (tolerance 1.6e-6(1+z): pydyf writes 6 decimals); the content '
                         'after the scale matrix is identical; BleedBox follows the 10 pt rule; judged in Python')


def same_ops(a, b, tol=2.5e-6):
    if len(a) != len(b):
        return False
    for (oa, aa), (ob, ab) in zip(a, b):
        if oa != ob or len(aa) != len(ab):
            return False
        for x, y in zip(aa, ab):
            if isinstance(x, float) and isinstance(y, float):
                if abs(x - y) > tol * (1 + abs(y)):
                    return False
            elif x != y:
                return False
    return True


def resolve_rest(o):
    table = {}
    for group in (o['fresh'], o['same_document']):
        for g in group:
            for p in g['pages']:
                if 'ops' in p['rest']:
                    table[p['rest']['id']] = p['rest']['ops']
    for group in (o['fresh'], o['same_document']):
        for g in group:
            for p in g['pages']:
                p['rest_id'] = p['rest'].get('id', p['rest'].get('same_as'))
                p['rest'] = table[p['rest_id']]


def judge_zoom_render(run, docs, outs):
    nboxes = nannots = 0
    for d, (st, o) in zip(docs, outs):
        if st != 'ok':
            report(run, 'render at several zooms raised/timed out: %s' % (str(o)[:300],), {'stream': 'zoom-render', 'doc': d},
                   crash_signature(st, o))
            continue
        resolve_rest(o)
        base = o['fresh'][ZOOMS.index(1)]
        for z, g in zip(ZOOMS, o['fresh']):
            bad = None
            if len(g['pages']) != len(base['pages']):
                bad = ('page-count', len(g['pages']), len(base['pages']))
            for pi, (pg, pb) in enumerate(zip(g['pages'], base['pages'])):
                if bad:
                    break
                for k in ('MediaBox', 'TrimBox'):
                    nboxes += 1
                    if not all(_close(a, z * b, z) for a, b in zip(pg[k], pb[k])):
                        bad = (k, pi, pg[k], pb[k])
                if not all(_close(a, z * b, z) for a, b in zip(pg['ctm'], pb['ctm'])) or pg['ncm'] != 2:
                    bad = bad or ('ctm', pi, pg['ctm'], pb['ctm'])
                if pg['rest_id'] != pb['rest_id'] and not same_ops(pg['rest'], pb['rest']):
                    bad = bad or ('content-after-the-scale-matrix', pi, pg['nops'], pb['nops'])
                if len(pg['annots']) != len(pb['annots']):
                    bad = bad or ('annotation-count', pi)
                for ag, ab in zip(pg['annots'], pb['annots']):
                    nannots += 1
                    if ag['subtype'] != ab['subtype'] or not all(_close(a, z * b, z) for a, b in zip(ag['rect'], ab['rect'])):
                        bad = bad or ('annotation-rect', pi, ag, ab)
                # BleedBox: judged against the cap rule (model), linear only within the cap
                cap_ok = all(_close(tb - bbx, min(10.0, tb - mb) if i < 2 else max(-10.0, tb - mb), z) or _close(tb - bbx, tb - mb, z)
                             for i, (bbx, tb, mb) in enumerate(zip(pg['BleedBox'], pg['TrimBox'], pg['MediaBox'])))
                if not cap_ok:
                    bad = bad or ('bleedbox-rule', pi, pg['BleedBox'], pg['TrimBox'], pg['MediaBox'])
                lin_bleed = all(_close(a, z * b, z) for a, b in zip(pg['BleedBox'], pb['BleedBox']))
                if not lin_bleed and not bad:
                    report(run, 'BleedBox at zoom %s is not %s times the zoom-1 BleedBox (10 pt cap)' % (z, z),
                           {'stream': 'zoom-render', 'doc': d, 'zoom': z, 'page': pi, 'got': pg['BleedBox'], 'base': pb['BleedBox']},
                           'c19:bleedbox-cap-not-scaled')
                fs_bad = [(ag['font_size'], ab['font_size']) for ag, ab in zip(pg['annots'], pb['annots'])
                          if ag['font_size'] is not None and ab['font_size'] and not _close(ag['font_size'], z * ab['font_size'], z)]
                if fs_bad and not bad:
                    report(run, 'form field font size at zoom %s is %s, %s at zoom 1: not scaled' % (z, fs_bad[0][0], fs_bad[0][1]),
                           {'stream': 'zoom-render', 'doc': d, 'zoom': z, 'page': pi}, 'c19:form-font-size-ignores-zoom')
            for (na, xa, ya), (nb, xb, yb) in zip(g['dests'], base['dests']):
                if na != nb or not _close(xa, z * xb, z) or not _close(ya, z * yb, z):
                    bad = bad or ('named-destination', na, (xa, ya), (xb, yb))
            for (ta, xa, ya), (tb_, xb, yb) in zip(g['outlines'], base['outlines']):
                if ta != tb_ or not _close(xa, z * xb, z) or not _close(ya, z * yb, z):
                    bad = bad or ('outline-destination', ta, (xa, ya), (xb, yb))
            if len(g['dests']) != len(base['dests']) or len(g['outlines']) != len(base['outlines']):
                bad = bad or ('destination-count',)
            if bad:
                report(run, 'zoom %s does not scale the PDF uniformly: %s' % (z, str(bad)[:300]),
                       {'stream': 'zoom-render', 'doc': d, 'zoom': z, 'clause': bad[0]}, 'c19:zoom:%s' % bad[0])
                break
        # the same Document written at the six zooms: same content as the fresh renders
        for z, g, f in zip(ZOOMS, o['same_document'], o['fresh']):
            if len(g['pages']) != len(f['pages']) or not all(pa['rest_id'] == pb['rest_id'] or same_ops(pa['rest'], pb['rest'])
                                                              for pa, pb in zip(g['pages'], f['pages'])):
                report(run, 'one Document written at several zooms: page content differs from a fresh render at zoom %s' % z,
                       {'stream': 'zoom-render', 'doc': d, 'zoom': z}, 'c19:document-rewrite-differs')
                break
    return nboxes, nannots


# ======================================================================================================================
# stream 4: Document.copy

def stream_copy(run, rng, n):
    cases = [{'n': 3, 'sel': None}, {'n': 0, 'sel': None}, {'n': 4, 'sel': []}, {'n': 4, 'sel': [3, 3, 0], 'as_iter': True}]
    for _ in range(n):
        k = rng.randint(0, 9)
        sel = None if rng.random() < 0.15 else [rng.randrange(k) for _ in range(rng.randint(0, 6))] if k else []
        cases.append({'n': k, 'sel': sel, 'as_iter': rng.random() < 0.3, 'as_tuple': rng.random() < 0.3})
    docs = []
    for i in range(max(3, n // 25)):
        d = gen_doc(rng, nblocks=rng.randint(4, 8))
        d['sels'] = [[0], [rng.randrange(9)], [rng.randrange(9) for _ in range(rng.randint(0, 4))], list(range(8, -1, -1))]
        docs.append(d)
    outs, outs_render = yield [('direct', 'copy_direct', cases, 40), ('direct', 'copy_render', docs, 1)]
    bad = []
    for c, (st, o) in zip(cases, outs):
        want = list(range(c['n'])) if c['sel'] is None else c['sel']        # the model: copy_selects_exactly
        ok = st == 'ok' and o['pages'] == want and o['same_objects'] and o['meta'] and o['fetcher'] and o['fc'] and o['fonts'] == 0 and \
            o['original'] == list(range(c['n'])) and o['original_fonts'] == 1 and o['new_object'] and o['is_list']
        if not ok:
            bad.append((c, o))
    run.oblige('corr:copy-direct(model copy vs Document.copy on stub pages)', not bad, str(bad[:2]))
    for c, o in bad[:1]:
        run.fail('Document.copy does not select exactly the given pages', {'stream': 'copy-direct', 'case': c, 'impl': o}, signature='c19:copy-direct')
    run.count('copy-direct', len(cases), [(c['n'], tuple(c['sel']) if c['sel'] is not None else None) for c in cases], samples=[cases[3]])
    # renders
    outs = outs_render
    ncopies = 0
    for d, (st, o) in zip(docs, outs):
        if st != 'ok':
            report(run, 'render for copy raised: %s' % (str(o)[:300],), {'stream': 'copy-render', 'doc': d},
                   crash_signature(st, o))
            continue
        if not o['original_unchanged']:
            report(run, 'writing copies changed the original Document (bytes or layout)', {'stream': 'copy-render', 'doc': d},
                   'c19:copy-changes-original')
        for c in o['copies']:
            ncopies += 1
            if 'exc' in c:
                run.fail('copy(...).write_pdf raised %s' % (c['exc'],), {'stream': 'copy-render', 'doc': d, 'sel': c['sel']},
                         signature=crash_signature('exc', c['exc']))
                continue
            want = [o['full'][i] for i in c['sel']]
            # dedupe: sel may name a page twice; npages == 0 -> sel == []
            if [tuple(map(repr, p)) for p in c['pages']] != [tuple(map(repr, p)) for p in want] or c['problems']:
                if True:
                    run.fail('copy(pages).write_pdf does not output exactly the selected pages: sel %s, got %d pages' % (c['sel'], len(c['pages'])),
                             {'stream': 'copy-render', 'doc': d, 'sel': c['sel'], 'got': c['pages'], 'want': want}, signature='c19:copy-render')
    run.count('copy-render', ncopies, [('doc', i) for i in range(len(docs))])
    run.stream_info('copy-render', rule='multi-page random documents; copies of one page, a random page, a random multiset, all pages reversed; '
                    'every page of the copy has the MediaBox and the content stream (resource names replaced by their rank of first use: '
                    'they are document-wide counters) of the page selected; the original writes the same bytes afterwards')


# ======================================================================================================================
# stream 5: flex write-back, one pass against two passes of the same boxes

PRE_RELAYOUT = ('From Coq Require Import QArith List Bool.\nRequire Import WV.model.C19Relayout.\nImport ListNotations.\nOpen Scope Q_scope.\n')


def gen_flex(rng):
    nl = rng.choice([1, 1, 2, 2, 3])
    lines = []
    for _ in range(nl):
        line = []
        for _ in range(rng.randint(1, 3)):
            line.append({'style': rng.choice([None, None, None, 10, 20, 35]), 'nat': rng.choice([0, 10, 10, 20, 30]),
                         'pad': rng.choice([0, 0, 2, 5]), 'stretch': rng.random() < 0.7, 'clip': True})
        lines.append(line)
    gap = rng.choice([0, 0, 5])
    # the model covers non-negative free space (with a negative one the automatic minimum size of the items comes in)
    need = sum(max((it['style'] if it['style'] is not None else it['nat']) + it['pad'] for it in l) for l in lines) + gap * (nl - 1)
    cross = rng.choice([None, None, 100, 150, 60, 200])
    if cross is not None and cross < need:
        cross = need + rng.choice([0, 10, 33])
    return {'cross': cross, 'gap': gap, 'lines': lines}


def flex_coq(c):
    ls = '; '.join('[%s]' % '; '.join('imk %s %s %s %s' % ('None' if it['style'] is None else '(Some %s)' % qlit(it['style']),
                                                             qlit(it['nat']), qlit(it['pad']), 'true' if it['stretch'] else 'false')
                                       for it in l) for l in c['lines'])
    return 'cmk %s %s [%s]' % ('None' if c['cross'] is None else '(Some %s)' % qlit(c['cross']), qlit(c['gap']), ls)


def stream_relayout(run, rng, n):
    cases = [{'cross': 100, 'gap': 0, 'lines': [[{'style': None, 'nat': 10, 'pad': 0, 'stretch': True, 'clip': True}],
                                                 [{'style': 20, 'nat': 10, 'pad': 0, 'stretch': False, 'clip': True}]]}]      # the Coq witness
    cases += [gen_flex(rng) for _ in range(n)]
    outs, grid_outs = yield [('direct', 'relayout_flex', cases, 3), ('direct', 'relayout_grid', [{'axis': 'x'}, {'axis': 'y'}], 1)]
    coq, kept = [], []
    premise = 0
    for c, (st, o) in zip(cases, outs):
        if st != 'ok':
            report(run, 'flex render raised: %s' % (str(o)[:300],), {'stream': 'relayout', 'case': c},
                   crash_signature(st, o))
            continue
        if o['once']['passes'] != 1 or o['twice']['passes'] != 2:
            premise += 1
            continue

        def obs(x):
            return '[%s]' % '; '.join('(%s, %s)' % (qlit(Fraction(l[0][0])), ql(l[1])) for l in x['lines'])
        # all items of a line start at the line start
        coq.append('(%s, %s, %s)' % (flex_coq(c), obs(o['once']), obs(o['twice'])))
        kept.append((c, o))
    run.oblige('relayout:premise(one pass / two passes of flex_layout observed)', premise <= len(cases) // 10,
               '%d of %d cases did not show 1 and 2 calls of flex_layout' % (premise, len(cases)))
    try:
        masks = common.eval_cases('c19relayout', PRE_RELAYOUT, 'rcase', coq, 'relayout_judge')
        mism = [(c, o) for (c, o), m in zip(kept, masks) if m & 1]
        run.oblige('corr:relayout(model layout / layout(after) vs one-pass / two-pass renders)', not mism, 'first disagreements: %s' % mism[:2])
        run.oblige('witness:shared-style-variant-replayed(the container that broke the shared-style code lays out the same once and twice)',
                   bool(masks) and masks[0] == 0, 'mask of the witness: %s' % masks[:1])
        nd = 0
        for (c, o), m in zip(kept, masks):
            if m & 2:
                nd += 1
                if nd <= 3:
                    run.fail('a flex container laid out twice (pushed to the next page) differs from the same container laid out once',
                             {'stream': 'relayout', 'case': c, 'impl': o}, signature='c19:flex-stretch-writeback-relayout')
        run.count('relayout', len(kept), [json.dumps(c, sort_keys=True) for c, _ in kept], samples=[kept[0][0]])
        run.stream_info('relayout', second_pass_differs=nd,
                        rule='wrapping row flex containers (1..3 lines of 1..3 items; height auto / 10..35 px, 0..3 text lines, padding, '
                             'stretch / flex-start; container height auto or definite; row gap) rendered alone (one flex_layout call) and '
                             'after a spacer inside a break-inside:avoid block that overflows (two calls on the same boxes); item positions '
                             'and heights against layout c and layout (after c) (relayout_judge, Coq, tolerance 1e-9 px)')
    except RuntimeError as exc:
        run.oblige('corr:relayout', False, str(exc))
    (st1, gx), (st2, gy) = grid_outs
    if st1 == 'ok' and st2 == 'ok' and (gx['once'] != gx['twice'] or gy['once'] != gy['twice']):
        run.fail('a grid laid out twice sizes its auto tracks differently: %s vs %s' % (gx['once'], gx['twice']),
                 {'stream': 'relayout', 'grid': [gx, gy]}, signature='c19:grid-stretch-writeback-relayout')
    run.oblige('relayout:grid-witness-ran', st1 == 'ok' and st2 == 'ok', str(grid_outs)[:500])


# ======================================================================================================================
# stream 7: minimal witnesses of the findings of this check, replayed at every run.  All but the BleedBox cap (F148, open)
# were repaired in /repo: their witnesses are regression tests now (run.fail: a `fixed` entry suppresses nothing).

PROBES = [
    ('inline-svg', 'c19:inline-svg-mutates-html-tree', lambda o: all(v['tree_mutated'] and v['second_render_differs'] for v in o.values())),
    ('marks', 'c19:marks-layer-accumulates-on-rewrite', lambda o: o['rewrite_differs']),
    ('cache-options', 'c19:image-cache-ignores-options', lambda o: any(o.values())),
    ('cache-dpi', 'c19:image-cache-dpi-overwrites-source', lambda o: o['warm_differs'] or o['jpeg_reencoded_each_render']),
    ('fonts-persist', 'c19:document-fonts-persist-across-writes', lambda o: o['full_fonts_after_default_write_differs']),
    ('attachment-clock', 'c19:attachment-dates-from-clock', lambda o: o['depends_on_clock']),
    ('diskcache', 'c19:diskcache-del-removes-shared-folder', lambda o: o['raises'] or not o.get('same', True)),
    ('form-zoom', 'c19:form-font-size-ignores-zoom', lambda o: o['font_not_scaled']),
    ('attachment-reuse', 'c19:attachment-object-single-use', lambda o: o['raises'] or not o['same']),
    ('bleedbox', 'c19:bleedbox-cap-not-scaled', lambda o: o['not_linear']),
]


def stream_probes(run):
    outs = yield ('direct', 'probe', [{'name': p[0]} for p in PROBES] + [{'name': 'copy-pdfua'}], 1)
    state = {}
    st, o = outs[-1]      # fixed in 225043d: a copy can be written as PDF/UA, with the pages selected
    if st != 'ok' or o['raises'] or not o.get('copy_ok'):
        run.fail('Document.copy(pages).write_pdf(pdf_variant="pdf/ua-1") fails or does not output the selected page: %s' % (str(o)[:300],),
                 {'stream': 'probes', 'probe': 'copy-pdfua', 'observed': o}, signature='c19:copy-loses-html-for-pdfua')
    state['copy-pdfua'] = 'works' if st == 'ok' and not o['raises'] else 'fails'
    outs = outs[:-1]
    for (name, sig, pred), (st, o) in zip(PROBES, outs):
        if st != 'ok':
            state[name] = 'probe failed: %s' % (str(o)[:200],)
            run.oblige('probe:%s-ran' % name, False, str(o)[:1500])
            continue
        if pred(o):
            state[name] = 'reproduces'
            report(run, 'witness %s: %s' % (name, json.dumps(o)[:400]), {'stream': 'probes', 'probe': name, 'observed': o}, sig)
        else:
            state[name] = 'no longer reproduces'
    run.count('probes', len(PROBES), [(p[0],) for p in PROBES])
    run.stream_info('probes', state=state, rule='one minimal witness per finding of this check, replayed at every run: a repaired one '
                    'that reproduces again is a VIOLATION (regression), the open one (BleedBox cap) is matched by its signature')


# ======================================================================================================================
# stream 8: argument containers the caller reuses.  The SAME list of stylesheets (file names, pathlib paths, URLs, CSS
# objects), list of attachments, options dict, FontConfiguration, CounterStyle and url_fetcher objects are handed to
# 1..4 successive render() / write_pdf() calls.  (1) every container is unchanged after every call (items: same objects,
# same types; registries stop growing after the first call); (2) call k gives what call 1 gave; (3) and what a copy of
# a fresh interpreter gives with freshly built containers.

PRE_ARGS = ('From Coq Require Import ZArith List Bool.\nRequire Import WV.model.C19Args.\nImport ListNotations.\nOpen Scope Z_scope.\n')


def reuse_files():
    """Written once per content (same path, same ctime for every interpreter of the run)."""
    import hashlib
    res = 'file://' + common.REPO + '/tests/resources/'
    d = os.path.join(common.WORK, 'c19files')
    os.makedirs(d, exist_ok=True)
    texts = {
        'u0.css': '@font-face { font-family: ff0; src: url(%sweasyprint.otf) }\n@counter-style cc0 { system: cyclic; symbols: "h"; suffix: "" }\n'
                  '@page { size: 400px 200px; margin: 10px }\nbody { font-family: ff0; font-size: 20px; margin: 0 }\n'
                  'ol { list-style: cc0 inside; margin: 0; padding: 0 }\n' % res,
        'u2.css': '@font-face { font-family: ff2; src: url(%sweasyprint.otf) }\n.x { font-family: ff2; font-size: 16px }\n'
                  '@counter-style cc2 { system: fixed; symbols: "a" "b" "c" }\nul { list-style: cc2 }\n' % res,
        'u3.css': 'p { color: #246; margin: 2px 0 } @page { margin: 15px; @bottom-center { content: counter(page) } }\n'
                  'span { display: inline-block; border: 1px solid }\n',
        'a0.txt': 'hello attachment\n', 'a1.bin': 'second attachment \x01\x02\n'}
    texts['u1.css'] = '@import url(%s);\np { text-decoration: underline }\n' % ('file://' + os.path.join(d, 'u2.css'))
    paths = {}
    for name, text in texts.items():
        p = os.path.join(d, name)
        if not os.path.exists(p) or open(p).read() != text:
            open(p, 'w').write(text)
        paths[name] = p
    return paths


REUSE_HTML = ('<html><head><style>h1 { font-size: 14px } %s</style></head><body><h1>abc</h1><span>abcdefgh</span> <span class=x>abcd</span>'
              '<ol><li>abc</li><li>de</li></ol><ul><li>fgh</li></ul><p>%s</p>%s</body></html>')


def gen_reuse(rng, paths):
    n = rng.choice([1, 2, 2, 3, 3, 4])
    sheets = []
    for name in rng.sample(['u0.css', 'u1.css', 'u3.css', 'u2.css'], rng.randint(1, 3)):
        kind = rng.choice(['filename', 'filename', 'path', 'url', 'css'] + (['fileobj'] if n == 1 else []))
        sheets.append({'kind': kind, 'path': paths[name], 'name': name})
    atts = None
    if rng.random() < 0.45:
        atts = [{'kind': rng.choice(['filename', 'filename', 'path', 'object', 'url']), 'path': paths[rng.choice(['a0.txt', 'a1.bin'])]}
                for _ in range(rng.randint(1, 2))]
    inline = rng.choice(['', '', '@font-face { font-family: ffi; src: url(weasyprint.otf) } h1 { font-family: ffi }',
                         '@counter-style cci { system: cyclic; symbols: "*" } ul { list-style: cci }'])
    opts = {}
    if rng.random() < 0.3:
        opts['presentational_hints'] = True
    if rng.random() < 0.3:
        opts['pdf_forms'] = True
    if rng.random() < 0.3:
        opts['uncompressed_pdf'] = True
    if rng.random() < 0.2:
        opts['custom_metadata'] = True
    return {'html': REUSE_HTML % (inline, ' '.join(rng.choice(WORDS) for _ in range(rng.randint(2, 12))),
                                  rng.choice(['', '<input value=abc>', '<table border=1 width=200><tr><td align=right>a</table>'])),
            'sheets': sheets, 'attachments': atts, 'fc': rng.choice(['none', 'none', 'shared']), 'cs': rng.choice(['none', 'none', 'shared']),
            'ncalls': n, 'api': rng.choice(['render', 'render', 'write']), 'html_obj': rng.choice(['shared', 'fresh']),
            'opts': opts, 'fetcher': rng.choice(['default', 'custom'])}


def reuse_value(obs):
    return ('exc', tuple(obs['exc']['site'] or ()), obs['exc']['type']) if 'exc' in obs else ('ok', obs['pdf'], obs['len'], tuple(obs.get('layout', ())))


def judge_reuse(run, case, o, ref, report_limit):
    """Returns the list of (signature, what) for one case."""
    bad = []
    has_obj = any(a['kind'] == 'object' for a in (case['attachments'] or []))
    for k, (obs, cont) in enumerate(zip(o['calls'], o['containers'])):
        for flag, what in (('sheets_same', 'stylesheets list'), ('attachments_same', 'attachments list'), ('options_same', 'options'),
                           ('css_objects_same', 'CSS objects in the list'), ('html_same', 'HTML tree')):
            if not cont[flag]:
                bad.append(('c19:argument-container-modified', 'call %d changed the caller\'s %s: %s' % (k + 1, what, cont['changed_items'])))
        if not cont['attachment_objects_same']:
            bad.append(('c19:argument-container-modified',
                        'call %d modified the caller\'s Attachment object (an attribute other than the md5 memo)' % (k + 1)))
    for k, reg in enumerate(o['registry'][1:], start=1):
        if reg != o['registry'][0]:
            bad.append(('c19:registry-grows-on-repeat', 'call %d changed the shared FontConfiguration/CounterStyle again: %s -> %s' % (
                k + 1, o['registry'][0], reg)))
    v0 = reuse_value(o['calls'][0])
    for k, obs in enumerate(o['calls'][1:], start=1):
        if reuse_value(obs) != v0:
            if True:
                bad.append(('c19:reused-arguments-render-differs', 'call %d differs from call 1 with the very same argument objects: %s vs %s' % (
                    k + 1, str(reuse_value(obs))[:120], str(v0)[:120])))
    if ref is not None and reuse_value(ref['calls'][0]) != v0:
        bad.append(('c19:reused-arguments-differ-from-fresh', 'call 1 differs from a fresh interpreter with fresh containers: %s vs %s' % (
            str(v0)[:120], str(reuse_value(ref['calls'][0]))[:120])))
    return bad


def reuse_coq(case, o):
    items = []
    for i, sh in enumerate(case['sheets']):
        if sh['kind'] == 'css':
            items.append('Parsed %d (%d)' % (i, 0 if case['fc'] == 'shared' else -1))
        else:
            items.append('Raw %d' % i)
    envs = [0] * case['ncalls'] if case['fc'] == 'shared' else list(range(1, case['ncalls'] + 1))
    kinds = '; '.join('[%s]' % '; '.join('true' if x == 'parsed' else 'false' for x in c['sheet_kinds']) for c in o['containers'])
    equal = all(reuse_value(x) == reuse_value(o['calls'][0]) for x in o['calls'])
    return '([%s], [%s], [%s], %s)' % ('; '.join(items), '; '.join('(%d)' % e for e in envs), kinds, 'true' if equal else 'false')


def stream_reuse(run, rng, n):
    paths = reuse_files()
    # the seeded shape first: a list of file names with parse-time rules, three renders, default font configuration
    cases = [{'html': REUSE_HTML % ('', 'abc', ''), 'sheets': [{'kind': 'filename', 'path': paths['u0.css'], 'name': 'u0.css'}],
              'attachments': None, 'fc': 'none', 'cs': 'none', 'ncalls': 3, 'api': 'render', 'html_obj': 'shared', 'opts': {}, 'fetcher': 'default'},
             {'html': REUSE_HTML % ('', 'abc', ''), 'sheets': [{'kind': 'url', 'path': paths['u1.css'], 'name': 'u1.css'},
                                                              {'kind': 'path', 'path': paths['u0.css'], 'name': 'u0.css'}],
              'attachments': [{'kind': 'filename', 'path': paths['a0.txt']}], 'fc': 'none', 'cs': 'shared', 'ncalls': 2, 'api': 'write',
              'html_obj': 'fresh', 'opts': {'presentational_hints': True}, 'fetcher': 'custom'}]
    cases += [gen_reuse(rng, paths) for _ in range(n)]
    jobs = []
    per = 4
    for j in range(0, len(cases), per):
        jobs.append({'hashseed': (j // per) % 4, 'job': {'docs': [], 'histories': [], 'reuse': cases[j:j + per]}})
    for i, c in enumerate(cases):      # reference: one call, fresh containers, its own copy of a fresh interpreter, another hash seed
        ref = dict(c, ncalls=1)
        jobs.append({'hashseed': (i // per + 1 + i % 3) % 4, 'job': {'docs': [], 'histories': [], 'reuse': [ref]}})
    outs = yield ('jobs', jobs)
    discarded = 0
    results, refs = [], []
    njobs_main = (len(cases) + per - 1) // per
    ok = True
    for (st, o) in outs[:njobs_main]:
        if st != 'ok' or o.get('crashed'):
            run.oblige('reuse:job-ran', False, str(o)[:2000])
            ok = False
            results += [None] * per
            continue
        results += o['reuse']
        if o['module_mutated']:
            run.fail('module-level state modified by rendering: %s' % o['module_mutated'], {'stream': 'reuse', 'what': o['module_mutated']},
                     signature='c19:module-state-mutated')
    for (st, o) in outs[njobs_main:]:
        refs.append(o['reuse'][0] if st == 'ok' and not o.get('crashed') else None)
    reported = {}
    coq, kept = [], []
    nrenders = 0
    shapes = set()
    for c, o, ref in zip(cases, results, refs):
        if o is None:
            continue
        nrenders += len(o['calls']) + 1
        shapes.add((tuple(s_['kind'] for s_ in c['sheets']), tuple(a['kind'] for a in (c['attachments'] or [])), c['fc'], c['cs'], c['ncalls'], c['api']))
        for sig, what in judge_reuse(run, c, o, ref, 3):
            reported[sig] = reported.get(sig, 0) + 1
            if reported[sig] <= 2:
                report(run, what, {'stream': 'reuse', 'case': c, 'observed': {'calls': o['calls'], 'containers': o['containers']}}, sig)
        coq.append(reuse_coq(c, o))
        kept.append((c, o))
    try:
        masks = common.eval_cases('c19args', PRE_ARGS, 'acase', coq, 'args_judge')
        mism = [(c, [x['sheet_kinds'] for x in o['containers']]) for (c, o), m in zip(kept, masks) if m & 1]
        run.oblige('corr:reuse(model render_call: the caller\'s list after each call vs the implementation)', not mism, 'first disagreements: %s' % mism[:2])
        for (c, o), m in zip(kept, masks):
            if m & 2 and not reported.get('c19:reused-arguments-render-differs'):
                reported['c19:reused-arguments-render-differs'] = 1
                report(run, 'calls with the same argument objects give different results (the model says equal)',
                       {'stream': 'reuse', 'case': c, 'observed': {'calls': o['calls'], 'containers': o['containers']}},
                       'c19:reused-arguments-render-differs')
    except RuntimeError as exc:
        run.oblige('corr:reuse', False, str(exc))
    run.count('reuse', nrenders, [('shape',) + tuple(map(str, s_)) for s_ in shapes], samples=[cases[0], cases[-1]])
    run.stream_info('reuse', cases=len(cases), renders=nrenders, shapes=len(shapes), findings=reported,
                    batches_discarded_because_the_source_tree_changed=discarded,
                    rule='one list of 1..3 stylesheets (file name / pathlib path / file: URL / CSS object / file object for single calls) with '
                         '@font-face, @counter-style, @import, @page rules, optionally one list of 1..2 attachments (file name / path / '
                         'Attachment object), one options dict, default or shared FontConfiguration, default or shared CounterStyle, default '
                         'or custom url_fetcher: the same objects given to 1..4 render()+write_pdf() or write_pdf() calls on one or fresh HTML '
                         'objects; snapshots of every container (item identity, type, value) after each call; results compared with call 1 and '
                         'with a single call in another copy of a fresh interpreter (other hash seed, fresh containers); Coq: args_judge')


# ======================================================================================================================
# stream 9: the environment is an input, the clock is not.  SOURCE_DATE_EPOCH is a DIMENSION of the stream (boundary
# values: 0, 1, a recent value, 2^31, 2^32, the last second of year 9999; unset where the property demands no
# equality), crossed with documents that carry every kind of time-stamped object: <link rel=attachment>,
# <a rel=attachment>, every kind of item of options['attachments'] (file name, pathlib path, URL, file object,
# Attachment(guess | filename= | url= | string= | file_obj=) with and without created= / modified=),
# <meta name=dcterms.created|modified> (Info dictionary, XMP packet of the PDF/A and PDF/UA variants), font subsets saved by
# fontTools (head.modified).  Every render runs under a FAKED, frozen clock chosen by the harness (impl_c19._FakeClock):
# (1) two renders of one input under two clocks 1 s / 1 day / 400 days apart - and a third one in another interpreter
#     with another hash seed and yet another clock - give the same bytes when the variable is set; when it is not, two
#     renders under the SAME frozen clock do;
# (2) every date of every PDF is read back and judged in Coq (C19Dates.date_judge) on that ONE render: a date the
#     document does not give is the epoch, never the clock.

PRE_DATES = ('From Coq Require Import ZArith List Bool.\nRequire Import WV.model.C19Dates.\nImport ListNotations.\nOpen Scope Z_scope.\n')
EPOCHS = ['0', '1', '1700000000', '2147483648', '4294967296', '253402300799', None]
EPOCH_DATES = [0, 1, 86399, 951782400, 1234567890, 2147483648, 4102444800]      # explicit created= / modified= arguments
ATT_KINDS = ['raw-str', 'raw-pathlib', 'raw-url', 'raw-fileobj', 'obj-guess', 'obj-filename', 'obj-url', 'obj-string', 'obj-fileobj']
ATT_SOURCE = {'raw-str': 'Guess', 'raw-pathlib': 'Guess', 'raw-url': 'Guess', 'raw-fileobj': 'Guess', 'obj-guess': 'Guess',
              'obj-filename': 'Filename', 'obj-url': 'Url', 'obj-string': 'Str', 'obj-fileobj': 'FileObj', 'link': 'Url', 'a': 'Url'}
META_DATES = [None, None, '2020-01-0%d', '2019-12-2%dT23:59:58Z', '2021-06-1%dT08:30:00+05:30', '1999-01-0%dT00:00:00-08:00']
EPOCH_OPTS = [{}, {}, {'uncompressed_pdf': True}, {'pdf_variant': 'pdf/a-3b'}, {'pdf_variant': 'pdf/a-2u'}, {'pdf_variant': 'pdf/ua-1'},
              {'pdf_variant': 'pdf/a-4u'}, {'full_fonts': True}, {'hinting': True}, {'custom_metadata': True, 'pdf_forms': True},
              {'pdf_version': '2.0', 'uncompressed_pdf': True}]


def epoch_files():
    """Eight small files with distinct contents, written once (same path, same ctime / mtime for every interpreter)."""
    d = os.path.join(common.WORK, 'c19files')
    os.makedirs(d, exist_ok=True)
    paths = {}
    for i in range(8):
        name = 'e%d.%s' % (i, ['txt', 'bin', 'css', 'dat'][i % 4])
        text = 'c19 epoch stream, file %d\n' % i
        p = os.path.join(d, name)
        if not os.path.exists(p) or open(p).read() != text:
            open(p, 'w').write(text)
        paths[name] = (p, text)
    return paths


def _md5(data):
    import hashlib
    return hashlib.md5(data if isinstance(data, bytes) else data.encode()).hexdigest()


def gen_epoch(rng, i, files, epoch):
    """One case.  `model`: md5 of the attachment's content -> its construction as the model sees it."""
    uniq = 'c%d' % i
    names = rng.sample(sorted(files), len(files))
    model = {}
    head, body, atts = [], [], []

    def html_url(kind, n):
        if rng.random() < 0.6:
            text = '%s-%s-%d' % (uniq, kind, n)
            model[_md5(text)] = {'kind': kind, 'source': 'Url', 'created': None, 'modified': None}
            return 'data:text/plain,' + text
        p, text = files[names.pop()]
        model[_md5(text)] = {'kind': kind, 'source': 'Url', 'created': None, 'modified': None}
        return 'file://' + p
    full = i < len(EPOCHS)      # one case per value of the variable carries every class of attachment, dates not given
    for n in range(rng.choice([0, 1, 1, 2]) if not full else 1):
        head.append('<link rel=attachment href="%s" title="linked %d">' % (html_url('link', n), n))
    for n in range(rng.choice([0, 1, 1, 2]) if not full else 1):
        body.append('<p>see <a rel=attachment href="%s">the file %d</a></p>' % (html_url('a', n), n))
    nopt = (rng.choice([0, 2, 3, 3, 4]) if names else 0) if not full else 4
    for n in range(nopt):
        kind = ATT_KINDS[(3 * i + n + rng.choice([0, 0, 1])) % len(ATT_KINDS)]
        if full:
            kind = [ATT_KINDS[i % 4], 'obj-string', ATT_KINDS[4 + i % 5], 'obj-filename'][n]
        spec = {'kind': kind}
        if kind == 'obj-string':
            spec['text'] = text = '%s-string-%d' % (uniq, n)
        elif kind in ('raw-url', 'obj-url') and rng.random() < 0.5:
            text = '%s-url-%d' % (uniq, n)
            spec['url'] = 'data:text/plain,' + text
        else:
            if not names:
                break
            p, text = files[names.pop()]
            spec['path'] = p
            spec['url'] = 'file://' + p
        if kind.startswith('obj-'):
            which = rng.choice(['none', 'none', 'created', 'modified', 'both']) if not (full and n < 3) else 'none'
            if which in ('created', 'both'):
                spec['created'] = rng.choice(EPOCH_DATES + [rng.randint(0, 2 ** 32)])
            if which in ('modified', 'both'):
                spec['modified'] = rng.choice(EPOCH_DATES + [rng.randint(0, 2 ** 32)])
            spec['aware'] = rng.random() < 0.5
            if rng.random() < 0.5:
                spec['name'] = 'att%d.txt' % n
            if rng.random() < 0.3:
                spec['description'] = 'attachment %d' % n
        model[_md5(text)] = {'kind': kind, 'source': ATT_SOURCE[kind], 'created': spec.get('created'), 'modified': spec.get('modified'),
                             'path': spec.get('path')}
        atts.append(spec)
    metas = ''
    for name in ('created', 'modified'):
        form = rng.choice(META_DATES)
        if form:
            metas += '<meta name=dcterms.%s content="%s">' % (name, form % rng.randint(1, 9))
    if rng.random() < 0.5:
        doc = gen_doc(rng, nblocks=rng.randint(1, 3), bleed=False)
        html = doc['html'].replace('<meta charset=utf-8>', '<meta charset=utf-8>' + metas + ''.join(head), 1)
        html = html.replace('</body>', ''.join(body) + '</body>', 1)
        css = doc['css']
        grammar = True
    else:
        fam = rng.choice(FAMILIES)
        html = ('<html><head><meta charset=utf-8>%s%s<title>%s</title><style>%s body { font-family: %s; font-size: 12px } '
                'h1 { font-family: %s }</style></head><body><h1>%s</h1><p>%s</p>%s</body></html>' % (
                    metas, ''.join(head), uniq, ' '.join(FONT_FACES.values()), fam, rng.choice(FAMILIES),
                    ' '.join(rng.choice(WORDS) for _ in range(rng.randint(1, 4))),
                    ' '.join(rng.choice(WORDS) for _ in range(rng.randint(2, 10))), ''.join(body)))
        css = []
        grammar = False
    import re
    meta = []
    for name in ('created', 'modified'):      # the first element wins (get_html_metadata)
        m = re.search(r'<meta name=dcterms\.%s content="([^"]*)">' % name, html)
        meta.append(m.group(1) if m else None)
    a = rng.randint(946684800, 1262304000)      # 2000 .. 2010: never the epoch values, never the real clock
    delta = rng.choice([1, 86400, 400 * 86400 + 3661])
    clocks = [a, a + delta] if epoch is not None else [a, a, a + delta]
    opts = dict(rng.choice(EPOCH_OPTS), pdf_identifier='c19')
    return {'id': i, 'html': html, 'css': css, 'opts': opts, 'atts': atts, 'epoch': epoch, 'clocks': clocks,
            'api': rng.choice(['write', 'write', 'render']), 'model': model, 'meta': meta, 'grammar': grammar}


def _date_seconds(text):
    """'D:YYYYMMDDHHMMSSZ' -> seconds since 1970; anything else -> -1 (no date of the model is negative)."""
    import calendar, re, time
    m = re.match(r'^D:(\d{14})Z$', text or '')
    if not m:
        return -1
    try:
        return calendar.timegm(time.strptime(m.group(1), '%Y%m%d%H%M%S'))
    except (ValueError, OverflowError):
        return -1


def _digits(text):
    """A W3C date and the PDF date written for it have the same digits (full dates and full date-times are generated)."""
    import re
    if text is None:
        return None
    d = re.sub(r'\D', '', text)
    return int(d) if d else -1


def _oz(v):
    return 'None' if v is None else 'Some (%d)' % v


def epoch_coq(case, o, run_obs):
    """The Coq term (dcase) of one render, and what was matched: (term, [(kind, created given, modified given)])."""
    dates = run_obs['dates']
    meta = (_digits(case['meta'][0]), _digits(case['meta'][1]))
    infos = []
    if dates['info'] is not None:
        infos.append((_digits(dates['info'][0]), _digits(dates['info'][1])))
    for x in dates['xmp']:
        infos.append((_digits(x[0]), _digits(x[1])))
    files, matched = [], []
    for f in dates['files']:
        m = case['model'].get(f['md5']) or {'kind': 'unlisted', 'source': 'Url', 'created': None, 'modified': None}
        ct, mt = (o.get('file_times') or {}).get(m.get('path'), [0, 0]) if m['source'] == 'Filename' else (0, 0)
        files.append('(amk %s (%s) (%s) (%d) (%d), ((%d), (%d)))' % (m['source'], _oz(m['created']), _oz(m['modified']), ct, mt,
                                                                  _date_seconds(f['created']), _date_seconds(f['modified'])))
        matched.append((m['kind'], m['created'] is not None, m['modified'] is not None))
    others = [_date_seconds(t) for _, t in dates['others']]
    term = '(%s, (%d), (%s, %s), [%s], [%s], [%s], [%s], [%s])' % (
        _oz(None if case['epoch'] is None else int(case['epoch'])), run_obs['clock'], _oz(meta[0]), _oz(meta[1]),
        '; '.join('(%s, %s)' % (_oz(a), _oz(b)) for a, b in infos), '; '.join(files),
        '; '.join('(%d)' % x for x in o['font_file_dates']), '; '.join('(%d)' % x for x in dates['fonts']),
        '; '.join('(%d)' % x for x in others))
    return term, matched


def epoch_value(obs):
    return ('exc', tuple(obs['exc']['site'] or ()), obs['exc']['type']) if 'exc' in obs else ('pdf', obs['pdf'], obs['len'])


def judge_epoch(case, o, other=None):
    """Python part of the judge of one case: [(signature, what)].  `other`: the same input rendered in another interpreter
    (another hash seed) under another clock."""
    bad = []
    runs = o['runs']
    vals = [epoch_value(r) for r in runs]
    if case['epoch'] is not None:
        if len(set(vals)) > 1:
            bad.append(('c19:output-depends-on-the-clock',
                        'SOURCE_DATE_EPOCH=%s, fixed identifier: the same input written under two clocks (%s) gives different bytes: %s' % (
                            case['epoch'], [r['clock'] for r in runs], [str(v)[:60] for v in vals])))
        if other is not None and epoch_value(other['runs'][0]) != vals[0]:
            bad.append(('c19:output-depends-on-the-clock',
                        'SOURCE_DATE_EPOCH=%s, fixed identifier: the same input written in another interpreter (hash seed %s vs %s) under '
                        'another clock gives different bytes: %s vs %s' % (case['epoch'], other.get('hashseed'), o.get('hashseed'),
                                                                            str(epoch_value(other['runs'][0]))[:60], str(vals[0])[:60])))
    elif vals[0] != vals[1]:
        bad.append(('c19:same-clock-different-bytes', 'SOURCE_DATE_EPOCH unset, clock frozen at %s: two renders of the same input differ: %s' % (
            runs[0]['clock'], [str(v)[:60] for v in vals[:2]])))
    return bad


def _epoch_jobs(cases):
    """Jobs of forked interpreters: 3 cases each, hash seeds 0..3 in turn; then, for every case with the variable set, the
    same input once more in an interpreter with ANOTHER hash seed under another clock."""
    jobs, seeds = [], {}
    for n, j in enumerate(range(0, len(cases), 3)):
        chunk = cases[j:j + 3]
        for c in chunk:
            seeds[c['id']] = n % 4
        jobs.append({'hashseed': n % 4, 'job': {'docs': [], 'histories': [], 'module_snapshot': False,
                                                'direct': {'fn': 'epoch_case', 'cases': [{k: v for k, v in c.items() if k != 'model'} for c in chunk]}}})
    again = [c for c in cases if c['epoch'] is not None]
    for n, j in enumerate(range(0, len(again), 4)):
        chunk = again[j:j + 4]
        by_seed = {}
        for c in chunk:
            by_seed.setdefault((seeds[c['id']] + 1 + n % 3) % 4, []).append(c)
        for s, cs in sorted(by_seed.items()):
            jobs.append({'hashseed': s, 'again': [c['id'] for c in cs],
                         'job': {'docs': [], 'histories': [], 'module_snapshot': False, 'direct': {'fn': 'epoch_case', 'cases': [
                             dict({k: v for k, v in c.items() if k != 'model'}, clocks=[c['clocks'][-1] + 7 * 86400 + 11]) for c in cs]}}})
    return jobs


def stream_epoch(run, rng, n):
    files = epoch_files()
    cases = []
    for i in range(n):
        cases.append(gen_epoch(rng, i, files, EPOCHS[i % len(EPOCHS)]))
    jobs = _epoch_jobs(cases)
    outs = yield ('jobs', [{k: v for k, v in j.items() if k != 'again'} for j in jobs])
    main, others = {}, {}
    k = 0
    ok_jobs = True
    for j, (st, o) in zip(jobs, outs):
        ids = j.get('again')
        if st != 'ok' or o.get('crashed'):
            run.oblige('epoch:job-ran', False, str(o)[:1500])
            ok_jobs = False
            if ids is None:
                k += len(j['job']['direct']['cases'])
            continue
        for idx, res in enumerate(o['direct']):
            if ids is None:
                main[cases[k]['id']] = tuple(res)
                k += 1
            else:
                others[ids[idx]] = tuple(res)
    reported = {}
    coq, owners = [], []
    nrenders = raised = 0
    cover = set()
    readers = {}
    restored = True
    for c in cases:
        st, o = main.get(c['id'], ('exc', None))
        if st != 'ok':
            run.oblige('epoch:case-ran', False, 'case %d: %s' % (c['id'], str(o)[:600]))
            continue
        oth = others.get(c['id'])
        oth = oth[1] if oth and oth[0] == 'ok' else None
        restored = restored and o['clock_restored']
        for sig, what in judge_epoch(c, o, oth):
            reported[sig] = reported.get(sig, 0) + 1
            if reported[sig] <= 2:
                report(run, what, {'stream': 'epoch', 'case': c, 'observed': {'runs': o['runs'], 'other': oth and oth['runs']}}, sig)
        for r in o['runs'] + (oth['runs'] if oth else []):
            nrenders += 1
            if 'exc' in r:
                raised += 1
                continue
            for m in r.get('clock_readers', []):
                key = '%s:%s' % ('set' if c['epoch'] is not None else 'unset', m)
                readers[key] = readers.get(key, 0) + 1
            term, matched = epoch_coq(c, o, r)
            coq.append(term)
            owners.append((c, r, matched))
    try:
        masks = common.eval_cases('c19dates', PRE_DATES, 'dcase', coq, 'date_judge')
    except RuntimeError as exc:
        run.oblige('corr:epoch-dates', False, str(exc))
        masks = []
    mism = []
    default_dates = 0
    for (c, r, matched), m in zip(owners, masks):
        for kind, cg, mg in matched:
            cover.add((str(c['epoch']), kind, cg, mg))
            default_dates += (not cg) + (not mg) if kind != 'obj-filename' else 0
        if m & 2:
            sig = 'c19:default-date-not-the-epoch'
            reported[sig] = reported.get(sig, 0) + 1
            if reported[sig] <= 2:
                report(run, 'SOURCE_DATE_EPOCH=%s, clock frozen at %s: a date written into the PDF is neither given by the document nor the '
                       'epoch: embedded files %s, fonts %s, other dates %s, Info/XMP %s %s (document: %s)' % (
                           c['epoch'], r['clock'], [(f['created'], f['modified']) for f in r['dates']['files']][:6], r['dates']['fonts'][:4],
                           r['dates']['others'][:4], r['dates']['info'], r['dates']['xmp'], c['meta']),
                       {'stream': 'epoch', 'case': c, 'clause': 'dates', 'observed': {'run': r}}, sig)
        if m & 1:
            mism.append({'case': c['id'], 'epoch': c['epoch'], 'clock': r['clock'], 'dates': r['dates'], 'model': c['model']})
    run.oblige('corr:epoch-dates(model write: Info / XMP / EmbeddedFile / font dates of every render vs the implementation, clock known)',
               not mism and len(masks) == len(coq), 'first disagreements: %s' % (json.dumps(mism[:2])[:1800],))
    run.oblige('epoch:clock-restored-after-every-case', restored, 'a worker left the faked clock installed')
    zero_kinds = {k for (e, k, cg, mg) in cover if e == '0' and not (cg and mg)}
    want = {'link', 'a', 'obj-string'}
    run.oblige('epoch:coverage(SOURCE_DATE_EPOCH=0 met with default dates of <link>, <a> and option attachments; >= 40 default dates judged)',
               want <= zero_kinds and any(k.startswith('raw-') for k in zero_kinds) and default_dates >= 40,
               'kinds with default dates at epoch 0: %s; default dates judged: %d' % (sorted(zero_kinds), default_dates))
    run.oblige('epoch:renders-succeed', raised * 5 <= max(1, nrenders), '%d of %d renders raised' % (raised, nrenders))
    run.count('epoch', nrenders, [('key',) + tuple(map(str, x)) for x in cover] +
              [('opts', str(c['epoch']), json.dumps(c['opts'], sort_keys=True)) for c in cases],
              samples=[{k: v for k, v in cases[0].items() if k != 'model'}])
    run.stream_info('epoch', cases=len(cases), renders=nrenders, renders_that_raised=raised, dates_judged_in_coq=len(masks),
                    default_dates_judged=default_dates, epochs=EPOCHS, findings=reported,
                    interpreters=len(jobs), second_interpreter_cases=len(others),
                    modules_that_read_the_clock={k: v for k, v in sorted(readers.items())},
                    rule='SOURCE_DATE_EPOCH in turn 0, 1, 1700000000, 2^31, 2^32, 253402300799 (9999-12-31T23:59:59Z), unset; documents: '
                         'random grammar or a small page, 0..2 <link rel=attachment>, 0..2 <a rel=attachment> (data: or file: URLs), 0..4 '
                         'items of options[attachments] of 9 kinds (file name, pathlib path, URL, file object, Attachment(guess / filename= '
                         '/ url= / string= / file_obj=) with created= / modified= given or not, naive or aware), <meta dcterms.created / '
                         'modified> in 4 forms, @font-face otf / woff and system fonts, 11 option profiles (PDF/A-2u/3b/4u, PDF/UA-1, full '
                         'fonts, hinting, forms, uncompressed); the system clock is FAKED and frozen in the worker (datetime.now / utcnow / '
                         'today, time.time / time_ns in every loaded module): variable set -> clocks A and A + (1 s | 1 day | 400 days + '
                         '3661 s) in one interpreter and A + 7 days more in an interpreter with another hash seed: same bytes; unset -> A, A: '
                         'same bytes; every Info / XMP / EmbeddedFile / font head.modified / other date of every PDF read back and judged '
                         'by C19Dates.date_judge on that one render')


def _expand(req):
    """A stream's request -> zygote cases.  ('jobs', cases) as they are; ('direct', fn, cases, chunk): chunks of direct
    calls spread over the four hash seeds."""
    if req[0] == 'jobs':
        return list(req[1])
    _, fn, cases, chunk = req
    out = []
    for n, i in enumerate(range(0, len(cases), chunk)):
        out.append({'hashseed': n % 4, 'job': {'docs': [], 'histories': [], 'module_snapshot': False,
                                               'direct': {'fn': fn, 'cases': cases[i:i + chunk]}}})
    return out


def _collect(req, outs):
    if req[0] == 'jobs':
        return outs
    res = []
    _, fn, cases, chunk = req
    for n, i in enumerate(range(0, len(cases), chunk)):
        st, o = outs[n]
        k = len(cases[i:i + chunk])
        if st == 'ok' and not o.get('crashed'):
            res += [tuple(x) for x in o['direct']]
        else:
            res += [('exc', {'type': 'InterpreterCrash', 'msg': str(o)[:300], 'site': None})] * k
    return res


def drive(run, gens):
    """Advance every stream to its request(s), execute ALL requests of a round in one batch of forked interpreters (four
    imports of weasyprint for the whole round), hand the results back; streams judge in order."""
    import time
    seconds = {name: 0.0 for name, _ in gens}
    pending = {}
    for name, g in gens:
        t = time.time()
        try:
            pending[name] = next(g)
        except StopIteration:
            pass
        seconds[name] += time.time() - t
    rounds = discarded_total = 0
    compute = {name: 0.0 for name, _ in gens}
    while pending:
        rounds += 1
        cases, where = [], {}
        for name, _ in gens:
            if name not in pending:
                continue
            reqs = pending[name] if isinstance(pending[name], list) else [pending[name]]
            where[name] = []
            for r in reqs:
                z = _expand(r)
                where[name].append((len(cases), len(z)))
                cases += z
        t = time.time()
        outs, discarded = stable_batch(lambda: run_zygotes(cases))
        batch_wall = time.time() - t
        discarded_total += discarded
        nxt = {}
        for name, g in gens:
            if name not in pending:
                continue
            reqs = pending[name] if isinstance(pending[name], list) else [pending[name]]
            parts = []
            for r, (a, n) in zip(reqs, where[name]):
                compute[name] += sum((o or {}).get('seconds', 0) for st, o in outs[a:a + n] if st == 'ok' and isinstance(o, dict))
                parts.append(_collect(r, outs[a:a + n]))
            t = time.time()
            try:
                nxt[name] = g.send(parts if isinstance(pending[name], list) else parts[0])
            except StopIteration:
                pass
            seconds[name] += time.time() - t
        pending = nxt
        run.stream_info('driver', **{'round_%d_wall_seconds' % rounds: round(batch_wall, 1), 'round_%d_jobs' % rounds: len(cases)})
    run.stream_info('driver', rounds=rounds, batches_discarded_because_the_source_tree_changed=discarded_total,
                    source_tree=repo_state()[:20],
                    rule='all implementation-side work of a round runs in one batch: one interpreter per PYTHONHASHSEED 0..3 imports '
                         'weasyprint and forks a copy per job (4 at a time each)')
    return seconds, compute


STREAM_NAMES = {'cache': 'cache-direct', 'names': 'names-direct', 'zoomd': 'zoom-direct', 'zoomr': 'zoom-render', 'copy': 'copy-render',
                'relayout': 'relayout', 'probes': 'probes', 'reuse': 'reuse', 'monitor': 'monitor', 'epoch': 'epoch'}


def check(run):
    import time
    rng = random.Random(run.seed * 7919 + 19)
    thorough = run.tier == 'thorough'
    only = os.environ.get('C19_ONLY', '').split(',') if os.environ.get('C19_ONLY') else None
    t0 = time.time()
    if not only or 'prove' in only:
        common.prove(run, 'C19', ['model/C19Cache.vo', 'model/C19Names.vo', 'model/C19Pdf.vo', 'model/C19Relayout.vo', 'model/C19Args.vo',
                                   'model/C19Dates.vo'])
    run.stream_info('prove', seconds=round(time.time() - t0, 1))
    run.trusted += ['Coq 8.16.1 kernel (coqc); vm_compute for the cases.v evaluation',
                    'hand models coq/model/C19*.v, tied to /repo only by the direct-call correspondence streams (C19Dates.v: by the dates '
                    'read back from every PDF of the epoch stream, the clock being known)',
                    'harness/impl_c19.py (runner, zygote/fork, deep description of objects, stubs), harness/pdfread.py, the Python judges '
                    'of the zoom-render / copy-render / reuse streams and of the differential monitor',
                    'CPython, Pango, fontconfig, Pillow, fontTools as installed: the monitor compares executions, it does not model them']
    run.assumptions += ['the url_fetcher and the decoders are deterministic functions (model of the cache); a flaky fetcher is outside',
                        'hash-seed independence, module-level state, dict/set iteration order, object addresses: differential only',
                        'a copy (fork) of an interpreter that imported weasyprint and rendered nothing stands for a fresh interpreter',
                        'relayout model: row container, cross axis only, box-sizing content-box, no auto margins, min/max-height auto',
                        'epoch stream: the faked clock replaces datetime.now / utcnow / today and time.time / time_ns in every loaded module; a '
                        'read of the system clock made in C (none known in the render path) would only show as a difference between renders '
                        'made at different real times; dates are read back with harness/pdfread.py and by parsing the sfnt head table']
    k = 8 if thorough else 1
    # quick-tier volumes are sized for ~120 core-seconds in total; the thorough tier has 8x the cases
    plan = [('cache', lambda: stream_cache(run, rng, 200 * k)),
            ('names', lambda: stream_names(run, rng, 150 * k)),
            ('zoomd', lambda: stream_zoom_direct(run, rng, 120 * k)),
            ('zoomr', lambda: stream_zoom_render(run, rng, (12 if thorough else 4))),
            ('copy', lambda: stream_copy(run, rng, 100 * k)),
            ('relayout', lambda: stream_relayout(run, rng, 40 * k)),
            ('probes', lambda: stream_probes(run)),
            ('reuse', lambda: stream_reuse(run, rng, 38 * k)),
            ('monitor', lambda: stream_monitor(run, rng, 16 * k, 56 * k, 16 * (4 if thorough else 1))),
            # its own generator: the cases of the streams above do not move
            ('epoch', lambda: stream_epoch(run, random.Random(run.seed * 7919 + 1909), 42 * k))]
    gens = [(name, fn()) for name, fn in plan if not only or name in only]
    seconds, compute = drive(run, gens)
    for name, _ in gens:
        run.stream_info(STREAM_NAMES[name], seconds=round(seconds[name], 1), implementation_seconds_summed_over_jobs=round(compute[name], 1))


def _obs_value(obs):
    return ('exc', tuple(obs['exc']['site'] or ()), obs['exc']['type']) if 'exc' in obs else ('pdf', obs['pdf'], obs['len'])


def replay(data):
    d = data.get('data', {})
    st = d.get('stream')
    if st == 'monitor':
        clause = d.get('clause')
        if clause in ('layout', 'pdf-bytes'):
            vals = []
            for side in ('a', 'b'):
                case = d['job_' + side]
                (s_, o), = common.run_impl('impl_c19', 'spawn', [case], limit=700)
                if s_ != 'ok' or o.get('crashed'):
                    print('replay: interpreter failed', o)
                    return 1
                w = d[side]
                h = [x for x in o['histories'] if x['id'] == w['history']][0]
                obs = h['steps'][w['step']]
                vals.append(tuple(obs.get('layout', ())) if clause == 'layout' else _obs_value(obs))
                print('replay: %s [%s] -> %s' % (side, w, str(vals[-1])[:200]))
            return 1 if vals[0] != vals[1] else 0
        (s_, o), = common.run_impl('impl_c19', 'spawn', [d['job']], limit=700)
        if s_ != 'ok' or o.get('crashed'):
            print('replay: interpreter failed', o)
            return 1
        bad = bool(o['module_mutated'])
        for h in o['histories']:
            for obs in h['steps']:
                if obs['mutated'] or obs.get('rewrite_same') is False or obs.get('ret_none') is False:
                    print('replay:', h['id'], {k: obs.get(k) for k in ('mutated', 'rewrite_same', 'ret_none')})
                    bad = True
        print('replay: module state mutated:', o['module_mutated'])
        return 1 if bad else 0
    run = common.Run('C19', 'replay', 0)
    rng = random.Random(0)
    if st == 'cache-direct':
        (s_, o), = common.run_impl('impl_c19', 'cache_history', [d['case']])
        print('replay: implementation observations', s_, (o or {}).get('obs'), 'fetches', (o or {}).get('fetched'))
        print('class of the history:', history_class(d['case']['history']))
        return 1
    if st == 'names-direct':
        jobs = [{'hashseed': s, 'job': {'docs': [], 'histories': [], 'module_snapshot': False,
                                        'direct': {'fn': 'names_case', 'cases': [d['case']]}}} for s in range(4)]
        outs = run_zygotes(jobs)
        res = [json.dumps(o['direct'][0]) for _, o in outs]
        print('replay: outputs under 4 hash seeds:', res)
        return 1 if len(set(res)) > 1 else 0
    if st == 'zoom-direct':
        (s_, o), = common.run_impl('impl_c19', 'zoom_direct', [d['case']])
        print('replay:', s_, o)
        return 1
    if st == 'zoom-render':
        judge_zoom_render(run, [d['doc']], common.run_impl('impl_c19', 'zoom_render', [d['doc']], limit=240))
        print('replay:', [v['what'][:300] for v in run.violations], [w[:200] for _, w in run.known_hits])
        return 1 if run.violations else 0
    if st in ('copy-direct', 'copy-render'):
        if st == 'copy-direct':
            (s_, o), = common.run_impl('impl_c19', 'copy_direct', [d['case']])
            print('replay:', s_, o)
            return 1
        (s_, o), = common.run_impl('impl_c19', 'copy_render', [d['doc']], limit=240)
        print('replay:', s_, {k: v for k, v in (o or {}).items() if k != 'full'} if s_ == 'ok' else o)
        return 1
    if st == 'relayout':
        if 'case' in d:
            (s_, o), = common.run_impl('impl_c19', 'relayout_flex', [d['case']], limit=120)
            print('replay:', s_, o)
            return 1 if s_ != 'ok' or o['once']['lines'] != o['twice']['lines'] else 0
        print('replay: grid', common.run_impl('impl_c19', 'relayout_grid', [{'axis': 'x'}, {'axis': 'y'}], limit=60))
        return 1
    if st == 'reuse':
        reuse_files()
        c = d['case']
        outs = run_zygotes([{'hashseed': 1, 'job': {'docs': [], 'histories': [], 'reuse': [c]}},
                            {'hashseed': 2, 'job': {'docs': [], 'histories': [], 'reuse': [dict(c, ncalls=1)]}}])
        if any(s_ != 'ok' or o.get('crashed') for s_, o in outs):
            print('replay: interpreter failed', outs)
            return 1
        o, ref = outs[0][1]['reuse'][0], outs[1][1]['reuse'][0]
        bad = judge_reuse(run, c, o, ref, 10)
        for sig, what in bad:
            print('replay:', sig, what)
        print('replay: calls', [reuse_value(x) for x in o['calls']], 'reference', reuse_value(ref['calls'][0]))
        return 1 if bad else 0
    if st == 'epoch':
        epoch_files()
        c = d['case']
        sent = {k: v for k, v in c.items() if k != 'model'}
        outs = run_zygotes([{'hashseed': 1, 'job': {'docs': [], 'histories': [], 'module_snapshot': False,
                                                    'direct': {'fn': 'epoch_case', 'cases': [sent]}}},
                            {'hashseed': 2, 'job': {'docs': [], 'histories': [], 'module_snapshot': False,
                                                    'direct': {'fn': 'epoch_case', 'cases': [dict(sent, clocks=[c['clocks'][-1] + 7 * 86400 + 11])]}}}])
        if any(s_ != 'ok' or o.get('crashed') or o['direct'][0][0] != 'ok' for s_, o in outs):
            print('replay: interpreter failed', str(outs)[:2000])
            return 1
        o, oth = outs[0][1]['direct'][0][1], outs[1][1]['direct'][0][1]
        bad = judge_epoch(c, o, oth if c['epoch'] is not None else None)
        for sig, what in bad:
            print('replay:', sig, what)
        runs = [r for r in o['runs'] + oth['runs'] if 'exc' not in r]
        masks = common.eval_cases('c19dates', PRE_DATES, 'dcase', [epoch_coq(c, o, r)[0] for r in runs], 'date_judge')
        for r, m in zip(runs, masks):
            print('replay: SOURCE_DATE_EPOCH=%s clock=%s date_judge=%d embedded files %s fonts %s others %s info %s' % (
                c['epoch'], r['clock'], m, [(f['created'], f['modified']) for f in r['dates']['files']], r['dates']['fonts'],
                r['dates']['others'], r['dates']['info']))
        return 1 if bad or any(m & 2 for m in masks) else 0
    if st == 'probes':
        (s_, o), = common.run_impl('impl_c19', 'probe', [{'name': d['probe']}], limit=120)
        pred = ([p for p in PROBES if p[0] == d['probe']] or [(0, 0, lambda o: o['raises'] or not o.get('copy_ok'))])[0][2]
        print('replay:', s_, o)
        return 1 if s_ != 'ok' or pred(o) else 0
    print('nothing to replay for', st)
    return 0
