"""C19 - rendering is a pure function of its inputs: deterministic and isolated."""
import base64, itertools, json, os, random, struct, zlib
from fractions import Fraction
import common
from common import qlit, zlit, slit

# ======================================================================================================================
# document grammar (wide enough to exercise module-level state: UA stylesheets and counter styles, @font-face and the
# font configuration, images and the image cache, SVG, forms, bookmarks, target-counter re-pagination, flex/grid style
# write-back, tables, footnotes, running elements, hyphenation dictionaries, quotes)

WORDS = ['abc', 'de', 'fgh', 'a', 'bcd', 'efgh', 'hyphenation', 'considerable', 'ab', 'gfe', 'cab', 'bead', 'face',
         'fed', 'international', 'abcdefgh', 'Hg', 'xyz', 'lorem', 'ipsum']
IMAGES = ['pattern.png', 'blue.jpg', 'icon.png', 'logo_small.png', 'pattern.gif', 'not-optimized.jpg',
          'pattern.palette.png', 'pattern.svg', 'border.svg', 'really-a-png.svg', 'really-a-svg.png']
FAMILIES = ['weasyprint', 'wpwoff', 'DejaVu Sans', 'serif', 'monospace', 'DejaVu Serif']


def _png(w, h, rgb):
    raw = b''.join(b'\x00' + bytes(rgb) * w for _ in range(h))

    def chunk(t, d):
        return struct.pack('>I', len(d)) + t + d + struct.pack('>I', zlib.crc32(t + d) & 0xffffffff)
    return (b'\x89PNG\r\n\x1a\n' + chunk(b'IHDR', struct.pack('>IIBBBBB', w, h, 8, 2, 0, 0, 0)) +
            chunk(b'IDAT', zlib.compress(raw, 9)) + chunk(b'IEND', b''))


def data_png(w, h, rgb):
    return 'data:image/png;base64,' + base64.b64encode(_png(w, h, rgb)).decode()


class Gen:
    def __init__(self, rng, feats=None):
        self.rng = rng
        self.n = 0
        self.ids = []
        self.feats = set()
        self.families = set()
        self.counter_styles = set()
        self.allow = feats

    def uid(self, p='e'):
        self.n += 1
        return '%s%d' % (p, self.n)

    def text(self, lo=1, hi=8):
        return ' '.join(self.rng.choice(WORDS) for _ in range(self.rng.randint(lo, hi)))

    def family(self):
        f = self.rng.choice(FAMILIES)
        self.families.add(f)
        return f

    def inline(self, depth=0):
        rng = self.rng
        out = []
        for _ in range(rng.randint(1, 4)):
            r = rng.random()
            if r < 0.45 or depth > 1:
                out.append(self.text(1, 6))
            elif r < 0.55:
                out.append('<b>%s</b>' % self.text(1, 2))
            elif r < 0.62:
                out.append('<i style="font-family:%s">%s</i>' % (self.family(), self.text(1, 2)))
            elif r < 0.70:
                self.feats.add('link')
                if self.ids and rng.random() < 0.6:
                    t = rng.choice(self.ids)
                    cls = rng.choice(['', ' class=tc', ' class=tt'])
                    out.append('<a href="#%s"%s>%s</a>' % (t, cls, self.text(1, 2)))
                    if cls:
                        self.feats.add('target-counter')
                else:
                    out.append('<a href="%s">%s</a>' % (rng.choice(['https://example.org/x?a=1', 'other.html#z', '#nowhere']), self.text(1, 2)))
            elif r < 0.76:
                self.feats.add('footnote')
                out.append('<span class=fn>%s</span>' % self.text(1, 4))
            elif r < 0.82:
                self.feats.add('img')
                out.append(self.img())
            elif r < 0.86:
                out.append('<q>%s</q>' % self.text(1, 2))
                self.feats.add('quotes')
            elif r < 0.90:
                out.append('<span style="%s">%s</span>' % (rng.choice([
                    'text-decoration:underline', 'letter-spacing:1px', 'font-size:14px', 'color:#369', 'opacity:.5',
                    'display:inline-block;width:40px;border:1px solid', 'vertical-align:super;font-size:7px',
                    'background:yellow;padding:0 2px', 'font-variant-caps:small-caps', 'font-weight:bold',
                    'position:relative;top:2px', 'white-space:nowrap', 'text-transform:uppercase']), self.text(1, 3)))
            elif r < 0.94:
                out.append('<span class=cnt></span>')
                self.feats.add('counter')
            else:
                out.append('<span>%s</span>' % self.inline(depth + 1))
        return ' '.join(out)

    def img(self, style=''):
        rng = self.rng
        r = rng.random()
        if r < 0.7:
            src = rng.choice(IMAGES)
        elif r < 0.9:
            src = data_png(rng.choice([1, 3, 8]), rng.choice([1, 2, 8]), rng.choice([(255, 0, 0), (0, 128, 0), (0, 0, 255)]))
            self.feats.add('data-url')
        else:
            src = 'missing-%d.png' % rng.randint(1, 2)
            self.feats.add('missing-image')
        st = rng.choice(['', 'width:20px', 'height:15px', 'width:30px;height:10px', 'width:2em',
                         'width:40px;height:40px;object-fit:contain', 'width:25px;image-rendering:pixelated',
                         'max-width:50%', 'float:right;width:20px', 'opacity:.6;width:16px'])
        return '<img src="%s" alt="%s" style="%s">' % (src, rng.choice(['', 'alt abc']), st + style)

    def svg(self):
        rng = self.rng
        self.feats.add('svg')
        u = self.uid('g')
        parts = []
        for _ in range(rng.randint(1, 4)):
            k = rng.randrange(8)
            if k == 0:
                parts.append('<rect x="%d" y="%d" width="%d" height="%d" fill="%s" stroke="black"/>' % (
                    rng.randint(0, 20), rng.randint(0, 10), rng.randint(1, 30), rng.randint(1, 20), rng.choice(['red', 'url(#%s)' % u, 'none', '#0a0'])))
            elif k == 1:
                parts.append('<circle cx="%d" cy="%d" r="%d" fill="blue" opacity="%s"/>' % (rng.randint(5, 40), rng.randint(5, 20), rng.randint(1, 12), rng.choice(['1', '.5'])))
            elif k == 2:
                parts.append('<text x="2" y="%d" font-family="%s" font-size="%d">%s</text>' % (rng.randint(8, 20), self.family(), rng.choice([6, 8, 10]), self.text(1, 2)))
            elif k == 3:
                parts.append('<path d="M %d %d L 30 5 Q 20 20 5 %d Z" fill="none" stroke="green" stroke-width="%d" stroke-dasharray="%s"/>' % (
                    rng.randint(0, 9), rng.randint(0, 9), rng.randint(5, 25), rng.randint(1, 3), rng.choice(['none', '2 1'])))
            elif k == 4:
                parts.append('<g transform="%s"><ellipse cx="20" cy="10" rx="8" ry="4" fill="orange"/></g>' % rng.choice(['rotate(10)', 'translate(3 4) scale(.5)', 'skewX(10)']))
            elif k == 5:
                parts.append('<use href="#%sr" x="%d" y="3"/>' % (u, rng.randint(0, 20)))
            elif k == 6:
                parts.append('<image href="%s" x="1" y="1" width="10" height="10"/>' % rng.choice(['pattern.png', 'blue.jpg']))
            else:
                parts.append('<rect width="20" height="12" fill="teal" clip-path="url(#%sc)" mask="%s"/>' % (u, rng.choice(['none', 'url(#%sm)' % u])))
        defs = ('<defs><linearGradient id="%s"><stop offset="0" stop-color="red"/><stop offset="1" stop-color="blue" stop-opacity=".5"/>'
                '</linearGradient><rect id="%sr" width="6" height="6" fill="purple"/><clipPath id="%sc"><circle cx="8" cy="6" r="6"/></clipPath>'
                '<mask id="%sm"><rect width="10" height="12" fill="white"/></mask>'
                '<pattern id="%sp" width="4" height="4" patternUnits="userSpaceOnUse"><rect width="2" height="2" fill="black"/></pattern></defs>'
                % (u, u, u, u, u))
        return '<svg xmlns="http://www.w3.org/2000/svg" width="%d" height="%d" viewBox="0 0 50 30">%s%s</svg>' % (
            rng.choice([50, 100, 30]), rng.choice([30, 60, 20]), defs, ''.join(parts))

    def block(self, depth=0):
        rng = self.rng
        kinds = ['p', 'p', 'p', 'h', 'h', 'list', 'table', 'flex', 'grid', 'img', 'svg', 'form', 'deco', 'float', 'abs',
                 'columns', 'pre', 'div', 'break', 'toc', 'running', 'hyph', 'dl', 'transform']
        if self.allow is not None:
            kinds = [k for k in kinds if k in self.allow] or ['p']
        k = rng.choice(kinds)
        if depth > 2 and k in ('div', 'columns', 'flex', 'grid', 'table'):
            k = 'p'
        self.feats.add(k)
        if k == 'p':
            return '<p%s>%s</p>' % (rng.choice(['', '', ' style="text-align:justify"', ' style="text-indent:1em"', ' lang=fr',
                                                 ' style="font-family:%s"' % self.family(), ' style="line-height:1.7"',
                                                 ' style="orphans:3;widows:3"', ' style="break-inside:avoid"']), self.inline())
        if k == 'h':
            i = self.uid('h')
            self.ids.append(i)
            lv = rng.choice([1, 1, 2, 2, 3, 4])
            return '<h%d id="%s"%s>%s</h%d>' % (lv, i, rng.choice(['', '', ' style="bookmark-state:closed"', ' style="bookmark-level:none"',
                                                                     ' style="bookmark-label:content(text)"', ' style="break-before:page"']), self.text(1, 4), lv)
        if k == 'list':
            tag = rng.choice(['ul', 'ol'])
            lst = rng.choice(['', 'list-style-type:lower-roman', 'list-style-type:upper-alpha', 'list-style-type:square',
                              'list-style-position:inside', 'list-style-image:url(pattern.png)', 'list-style-type:"- "',
                              'list-style-type:mycyc', 'list-style-type:myadd', 'list-style-type:mynum', 'list-style-type:cjk-decimal',
                              'list-style-type:lower-greek', 'list-style-type:disclosure-open'])
            for name in ('mycyc', 'myadd', 'mynum'):
                if name in lst:
                    self.counter_styles.add(name)
            items = []
            for _ in range(rng.randint(1, 5)):
                inner = self.inline()
                if depth < 2 and rng.random() < 0.2:
                    inner += self.block(depth + 2) if rng.random() < 0.5 else '<ol><li>%s<li>%s</ol>' % (self.text(1, 2), self.text(1, 2))
                items.append('<li%s>%s</li>' % (rng.choice(['', '', ' value=7', ' style="counter-increment:list-item 3"']), inner))
            return '<%s style="%s"%s>%s</%s>' % (tag, lst, rng.choice(['', ' start=4', ' reversed']) if tag == 'ol' else '', ''.join(items), tag)
        if k == 'table':
            nc = rng.randint(1, 4)
            rows = []
            for r in range(rng.randint(1, 5)):
                cells = []
                c = 0
                while c < nc:
                    span = rng.choice([1, 1, 1, 2]) if c + 1 < nc else 1
                    attrs = ' colspan=2' if span == 2 else ''
                    if rng.random() < 0.08:
                        attrs += ' rowspan=2'
                    cells.append('<td%s>%s</td>' % (attrs, self.inline(1) if rng.random() < 0.8 else ''))
                    c += span
                rows.append('<tr>%s</tr>' % ''.join(cells))
            head = '<thead><tr>%s</tr></thead>' % ''.join('<th>%s</th>' % self.text(1, 1) for _ in range(nc)) if rng.random() < 0.4 else ''
            foot = '<tfoot><tr><td colspan=%d>%s</td></tr></tfoot>' % (nc, self.text(1, 2)) if rng.random() < 0.2 else ''
            cap = '<caption>%s</caption>' % self.text(1, 3) if rng.random() < 0.2 else ''
            st = rng.choice(['', 'border-collapse:collapse', 'width:100%', 'table-layout:fixed;width:100%', 'border-spacing:3px 1px',
                             'border-collapse:collapse;width:80%'])
            return '<table class=t style="%s">%s%s%s<tbody>%s</tbody></table>' % (st, cap, head, foot, ''.join(rows))
        if k == 'flex':
            st = rng.choice(['', 'flex-wrap:wrap', 'flex-direction:column', 'flex-wrap:wrap;height:60px', 'justify-content:space-between',
                             'align-items:center', 'flex-wrap:wrap;align-content:stretch;height:80px', 'gap:4px', 'flex-direction:row-reverse'])
            items = []
            for _ in range(rng.randint(1, 5)):
                ist = rng.choice(['', 'flex:1', 'width:60px', 'flex:0 1 40px', 'width:45%', 'height:20px', 'align-self:flex-end', 'flex:2 1 0',
                                  'margin:2px', 'width:60px;height:15px'])
                items.append('<div style="%s;border:1px solid #999">%s</div>' % (ist, self.inline(1) if rng.random() < 0.8 else self.block(depth + 3)))
            return '<div style="display:flex;%s">%s</div>' % (st, ''.join(items))
        if k == 'grid':
            st = rng.choice(['grid-template-columns:1fr 2fr', 'grid-template-columns:auto auto', 'grid-template-columns:50px 1fr 50px',
                             'grid-template-columns:repeat(3,1fr);gap:3px', 'grid-template-rows:auto auto;height:70px',
                             'grid-template-columns:1fr 1fr;grid-auto-rows:20px', 'grid-template-columns:auto auto;justify-items:start'])
            items = []
            for _ in range(rng.randint(1, 6)):
                ist = rng.choice(['', '', 'justify-self:start', 'align-self:end', 'padding:2px', 'background:#eee'])
                items.append('<div style="%s">%s</div>' % (ist, self.inline(1)))
            return '<div style="display:grid;%s">%s</div>' % (st, ''.join(items))
        if k == 'img':
            return '<div>%s%s</div>' % (self.img(), self.img() if rng.random() < 0.4 else '')
        if k == 'svg':
            return '<div>%s</div>' % self.svg()
        if k == 'form':
            self.feats.add('form')
            ctl = []
            for _ in range(rng.randint(1, 4)):
                n = self.uid('f')
                ctl.append(rng.choice([
                    '<input name="%s" value="%s">' % (n, self.text(1, 2)), '<input type=checkbox name="%s"%s>' % (n, rng.choice(['', ' checked'])),
                    '<input type=radio name="%s" value=a checked><input type=radio name="%s" value=b>' % (n, n),
                    '<textarea name="%s" rows=2>%s</textarea>' % (n, self.text(1, 5)), '<select name="%s"><option>a<option selected>bc</select>' % n,
                    '<button>%s</button>' % self.text(1, 1), '<input type=password name="%s" value=secret>' % n,
                    '<input name="%s" maxlength=5 required placeholder=ph>' % n, '<select multiple name="%s"><option>a<option selected>b</select>' % n,
                    '<input type=submit value=go>', '<label>%s <input name="%s" disabled></label>' % (self.text(1, 1), n)]))
            return '<form>%s</form>' % ' '.join(ctl)
        if k == 'deco':
            st = rng.choice(['background:linear-gradient(red,blue);height:20px', 'background:radial-gradient(circle,#fff,#000);height:25px',
                             'background:url(pattern.png) repeat;height:12px', 'border:3px dashed green;border-radius:5px;padding:3px',
                             'background:repeating-linear-gradient(45deg,red 0 3px,blue 3px 6px);height:15px;opacity:.7',
                             'border:2px solid;border-image:url(border.svg) 2;height:10px', 'outline:1px dotted red;margin:3px',
                             'background:url(pattern.svg) no-repeat center / 20px 20px, #ff0;height:24px', 'box-shadow:none;border-top:4px double',
                             'background:url(blue.jpg);background-size:cover;height:18px;border-radius:50%', 'mix-blend-mode:multiply;background:#0ff;height:8px',
                             'overflow:hidden;height:12px;border:1px solid', 'background:conic-gradient(red,blue);height:14px'])
            return '<div style="%s">%s</div>' % (st, self.text(1, 3) if rng.random() < 0.5 else '')
        if k == 'float':
            return '<div style="float:%s;width:%dpx;border:1px solid">%s</div><p>%s</p>' % (rng.choice(['left', 'right']), rng.choice([30, 60]), self.inline(1), self.inline())
        if k == 'abs':
            return '<div style="position:relative;height:30px"><div style="position:%s;%s:%dpx;top:5px;background:#fcc">%s</div>%s</div>' % (
                rng.choice(['absolute', 'absolute', 'fixed']), rng.choice(['left', 'right']), rng.randint(0, 20), self.text(1, 2), self.text(1, 3))
        if k == 'columns':
            inner = ''.join(self.block(depth + 1) for _ in range(rng.randint(1, 3)))
            return '<div style="columns:%d;column-gap:6px;%s">%s%s</div>' % (rng.choice([2, 3]), rng.choice(['', 'column-rule:1px solid']), inner,
                                                                               '<div style="column-span:all">%s</div><p>%s</p>' % (self.text(1, 2), self.text(2, 8)) if rng.random() < 0.2 else '')
        if k == 'pre':
            return '<pre style="%s">%s\n  %s</pre>' % (rng.choice(['', 'white-space:pre-wrap', 'tab-size:2', 'text-overflow:ellipsis;overflow:hidden;white-space:nowrap;width:50px']),
                                                       self.text(1, 4), self.text(1, 4))
        if k == 'div':
            st = rng.choice(['', 'margin:5px;padding:3px;border:1px solid', 'break-inside:avoid', 'page:wide', 'width:70%;margin:auto',
                             'counter-reset:sec', 'direction:rtl', 'font-size:12px', 'box-decoration-break:clone;border:2px solid;padding:2px',
                             'max-height:40px;overflow:hidden', 'display:inline-block;width:45%', 'display:flow-root', 'margin-top:-3px'])
            if 'page:wide' in st:
                self.feats.add('named-page')
            return '<div style="%s">%s</div>' % (st, ''.join(self.block(depth + 1) for _ in range(rng.randint(1, 3))))
        if k == 'break':
            return '<div style="break-%s:%s">%s</div>' % (rng.choice(['before', 'after']), rng.choice(['page', 'left', 'right', 'avoid']), self.text(1, 3))
        if k == 'toc':
            if not self.ids:
                return '<p>%s</p>' % self.text(1, 3)
            self.feats.add('target-counter')
            return '<ul class=toc>%s</ul>' % ''.join('<li><a href="#%s"></a></li>' % i for i in self.rng.sample(self.ids, min(len(self.ids), 3)))
        if k == 'running':
            return '<div class=run>%s</div><p class=ss>%s</p>' % (self.text(1, 2), self.text(1, 2))
        if k == 'hyph':
            return '<p lang=%s style="hyphens:auto;width:%dpx;%s">%s</p>' % (rng.choice(['en', 'fr', 'de']), rng.choice([30, 50, 70]),
                                                                             rng.choice(['', 'hyphenate-character:"~"', 'text-align:justify']),
                                                                             ' '.join(rng.choice(['hyphenation', 'considerable', 'international', 'abc']) for _ in range(rng.randint(2, 6))))
        if k == 'dl':
            return '<dl><dt>%s<dd>%s<dt>%s<dd>%s</dl>' % (self.text(1, 2), self.inline(1), self.text(1, 2), self.text(1, 4))
        if k == 'transform':
            return '<div style="transform:%s;transform-origin:%s;width:60px;border:1px solid">%s</div>' % (
                rng.choice(['rotate(5deg)', 'scale(.8)', 'translate(5px,2px)', 'matrix(1,0,.2,1,0,0)']), rng.choice(['0 0', 'center', '100% 0']), self.inline(1))
        return '<p>%s</p>' % self.text()


COUNTER_STYLES = {
    'mycyc': '@counter-style mycyc { system: cyclic; symbols: "*" "+" "~"; suffix: " " }',
    'myadd': '@counter-style myadd { system: additive; additive-symbols: 10 X, 5 V, 1 I; range: 1 39 }',
    'mynum': '@counter-style mynum { system: numeric; symbols: "0" "1" "2"; pad: 3 "0"; prefix: "(" ; suffix: ") " }',
}
FONT_FACES = {
    'weasyprint': '@font-face { font-family: weasyprint; src: url(weasyprint.otf) }',
    'wpwoff': '@font-face { font-family: wpwoff; src: url(weasyprint.woff) format("woff") }',
}


def gen_doc(rng, feats=None, nblocks=None, bleed=None):
    g = Gen(rng, feats)
    body_family = g.family()
    blocks = [g.block() for _ in range(nblocks or rng.randint(3, 9))]
    size = rng.choice(['300px 220px', '400px 300px', 'A6', '250px 180px', 'A5 landscape', '500px 200px'])
    margin = rng.choice(['10px', '20px 15px', '1cm', '30px 10px 25px 12px'])
    if bleed is None:
        bleed = rng.random() < 0.25
    page = ['size:%s' % size, 'margin:%s' % margin]
    if bleed:
        page.append('bleed:%s' % rng.choice(['3px', '8px', '10px']))
        page.append('marks:%s' % rng.choice(['crop', 'cross', 'crop cross']))
        g.feats.add('bleed')
    mboxes = []
    if rng.random() < 0.6:
        mboxes.append('@bottom-center { content: counter(page) "/" counter(pages); font-size: 8px }')
        g.feats.add('counter(pages)')
    if rng.random() < 0.3:
        mboxes.append('@top-left { content: string(chap); font-size: 8px }')
        g.feats.add('string-set')
    if rng.random() < 0.2:
        mboxes.append('@top-right { content: element(hdr) }')
        g.feats.add('running-element')
    if rng.random() < 0.15:
        mboxes.append('@left-middle { content: "m"; background: #ddd; width: 6px }')
    css = ['@page { %s; %s }' % ('; '.join(page), ' '.join(mboxes))]
    if rng.random() < 0.3:
        css.append('@page :first { margin-top: 35px; @top-center { content: "first" } }')
    if rng.random() < 0.2:
        css.append('@page :left { margin-left: 25px } @page :right { margin-right: 25px }')
    if 'named-page' in g.feats:
        css.append('@page wide { size: 420px 200px; @top-center { content: "wide " counter(page) } }')
    css.append('body { font-family: %s; font-size: %dpx; line-height: %s; counter-reset: ch sec }' % (
        body_family, rng.choice([10, 10, 9, 12]), rng.choice(['1.2', '12px', 'normal', '1.5'])))
    css.append('h1 { counter-increment: ch; string-set: chap content(text); bookmark-level: 1; font-size: 1.4em; margin: .3em 0 }')
    css.append('h1::before { content: counter(ch) ". " } h2 { counter-increment: sec; font-size: 1.2em; margin: .2em 0 } '
               'h2::before { content: counter(ch) "." counter(sec, %s) " " } h3, h4 { font-size: 1em; margin: .1em 0 }'
               % rng.choice(['decimal', 'lower-alpha', 'upper-roman', 'mycyc']))
    if 'mycyc' in css[-1]:
        g.counter_styles.add('mycyc')
    css.append('p { margin: .3em 0 } table.t td, table.t th { border: 1px solid #777; padding: 1px 2px } '
               '.fn { float: footnote; font-size: 8px } .cnt::after { content: counters(list-item, ".") "|" counter(ch) } '
               'a.tc::after { content: " (p. " target-counter(attr(href), page) ")" } '
               'a.tt::after { content: " [" target-text(attr(href), content) "]" } '
               'ul.toc a::before { content: target-text(attr(href), content) } '
               'ul.toc a::after { content: leader(".") target-counter(attr(href), page) } '
               '.run { position: running(hdr); font-size: 8px } .ss { string-set: chap content(text) } '
               'q { quotes: auto } ::marker { color: #555 } li::marker { font-variant-numeric: tabular-nums }')
    if rng.random() < 0.15:
        css.append('::footnote-call { content: "[" counter(footnote) "]" } @page { @footnote { border-top: 1px solid; margin-top: 3px } }')
    for name in sorted(g.counter_styles):
        css.append(COUNTER_STYLES[name])
    for fam in sorted(g.families | {body_family}):
        if fam in FONT_FACES:
            css.append(FONT_FACES[fam])
            g.feats.add('@font-face')
    user_css = []
    if rng.random() < 0.4:
        user_css.append('p { color: #%s } @page { background: #f8f8f8 } h1 { text-decoration: underline }' % rng.choice(['300', '030', '003']))
        g.feats.add('user-css')
        if rng.random() < 0.3:
            user_css.append('@font-face { font-family: wpuser; src: url(weasyprint.otf) } h3 { font-family: wpuser, serif } '
                            '@counter-style ucs { system: fixed; symbols: A B C } ol { list-style: ucs }')
            g.feats.add('user-css-font-face')
    meta = ''
    if rng.random() < 0.5:
        meta = ('<title>%s</title><meta name=author content="%s"><meta name=dcterms.created content="2020-01-0%d">'
                '<meta name=keywords content="a, b"><meta name=generator content=gen><meta name=x-custom content=v>'
                % (g.text(1, 3), g.text(1, 2), rng.randint(1, 9)))
    html = '<html lang="%s"><head><meta charset=utf-8>%s<style>%s</style></head><body>%s</body></html>' % (
        rng.choice(['en', 'fr', 'de', 'en-GB']), meta, '\n'.join(css), '\n'.join(blocks))
    return {'html': html, 'css': user_css, 'feats': sorted(g.feats), 'bleed': bool(bleed)}
