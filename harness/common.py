"""Shared machinery of the checks: regeneration, Coq build, assumption audit, cases.v evaluation,
implementation worker pool, known findings, evidence, VIOLATION reporting."""
import os, sys, json, re, time, subprocess, hashlib, signal, random, traceback, multiprocessing, shutil

VERIF = os.path.dirname(os.path.dirname(os.path.abspath(__file__)))
REPO = os.environ.get('VERIF_REPO', '/repo')
COQ = os.path.join(VERIF, 'coq')
WORK = os.path.join(VERIF, '.work')
NCPU = int(os.environ.get('VERIF_JOBS', '16'))

ALLOWED_AXIOMS = set()   # target: every property theorem closed under the global context

sys.path.insert(0, os.path.join(VERIF, 'tools'))


def sh(cmd, timeout=600, cwd=None, env=None):
    try:
        p = subprocess.run(cmd, shell=isinstance(cmd, str), cwd=cwd, env=env, timeout=timeout,
                           stdout=subprocess.PIPE, stderr=subprocess.STDOUT, text=True)
        return p.returncode, p.stdout
    except subprocess.TimeoutExpired as exc:
        return 124, (exc.stdout or '') + '\nTIMEOUT after %ss' % timeout


# ----------------------------------------------------------------------------------------------- Coq side

def regen(only=None):
    """Regenerate coq/gen/*.v from REPO's working tree.  Returns (written, errors)."""
    import py2coq
    return py2coq.generate(REPO, os.path.join(COQ, 'gen'), only)


def coq_project():
    """(Re)write _CoqProject listing every .v under coq/ (except scratch) and the Makefile if needed."""
    files = []
    for d in ('base', 'gen', 'model', 'proofs', 'props'):
        p = os.path.join(COQ, d)
        if os.path.isdir(p):
            for f in sorted(os.listdir(p)):
                if f.endswith('.v') and not f.startswith('.'):
                    files.append('%s/%s' % (d, f))
    text = '-Q . WV\n' + '\n'.join(files) + '\n'
    cp = os.path.join(COQ, '_CoqProject')
    old = open(cp).read() if os.path.exists(cp) else None
    if old != text or not os.path.exists(os.path.join(COQ, 'Makefile')):
        open(cp, 'w').write(text)
        rc, out = sh('coq_makefile -f _CoqProject -o Makefile', cwd=COQ)
        if rc:
            raise RuntimeError('coq_makefile failed: ' + out)


def coq_make(targets, timeout=1500):
    """Full .vo build of the given targets (paths relative to coq/, e.g. props/C05.vo)."""
    os.makedirs(WORK, exist_ok=True)
    lock = os.path.join(WORK, 'make.lock')
    import fcntl
    with open(lock, 'w') as lf:
        fcntl.flock(lf, fcntl.LOCK_EX)          # one make at a time in coq/ (checks may run concurrently)
        coq_project()
        # 12 GB of address space per coqc at most: a proof that blows up must fail, not take the machine down
        rc, out = sh('ulimit -v 12000000; make -j%d %s' % (NCPU, ' '.join(targets)), cwd=COQ, timeout=timeout)
    return rc == 0, out


def audit_props(prop):
    """Compile props/<prop>.v (theorems `exact lemma` + Print Assumptions) and parse the assumptions.
    Returns (ok, {theorem: 'closed' | [axioms]}, log)."""
    src = os.path.join(COQ, 'props', prop + '.v')
    rc, out = sh('coqc -Q . WV props/%s.v' % prop, cwd=COQ, timeout=600)
    thms = re.findall(r'^\s*Print Assumptions\s+([A-Za-z0-9_\.\']+)\s*\.', open(src).read(), re.M)
    res = {}
    if rc != 0:
        return False, res, out
    # Coq prints either "Closed under the global context" or "Axioms:\n name : type ..." per Print Assumptions
    chunks = re.split(r'(?=Closed under the global context|Axioms:)', out)
    chunks = [c for c in chunks if c.startswith('Closed') or c.startswith('Axioms:')]
    ok = len(chunks) == len(thms)
    for t, c in zip(thms, chunks):
        if c.startswith('Closed'):
            res[t] = 'closed'
        else:
            ax = re.findall(r'^([A-Za-z0-9_\.\']+)\s*:', c, re.M)
            res[t] = ax
            if any(a not in ALLOWED_AXIOMS for a in ax):
                ok = False
    return ok, res, out


FORBIDDEN = re.compile(r'\b(Admitted|admit|Axiom|Parameter|Conjecture|Unset Guard Checking|bypass_check|'
                       r'Admit Obligations|type-in-type|impredicative-set)\b')


def lint_coq():
    """No Admitted/Axiom/... anywhere in the development (Module Type QOPS declares its interface with
    Parameter/Axiom inside a *module type*, which declares nothing: that one file section is exempted)."""
    bad = []
    for root, _, fs in os.walk(COQ):
        if '.work' in root:
            continue
        for f in fs:
            if not f.endswith('.v'):
                continue
            text = open(os.path.join(root, f)).read()
            text = re.sub(r'\(\*.*?\*\)', '', text, flags=re.S)
            text = re.sub(r'Module Type QOPS\..*?End QOPS\.', '', text, flags=re.S)
            for m in FORBIDDEN.finditer(text):
                bad.append('%s: %s' % (os.path.join(root, f), m.group(0)))
            for m in re.finditer(r'^\s*(Variable|Hypothesis|Variables|Hypotheses|Context)\b', text, re.M):
                # must be inside a Section
                before = text[:m.start()]
                if len(re.findall(r'^\s*Section\s', before, re.M)) <= len(re.findall(r'^\s*End\s', before, re.M)) \
                        - len(re.findall(r'^\s*Module\s', before, re.M)):
                    bad.append('%s: %s outside a section' % (os.path.join(root, f), m.group(1)))
    return bad


def _coqc_case_file(path):
    rc, out = sh('coqc -Q %s WV %s' % (COQ, path), timeout=900, cwd=os.path.dirname(path))
    return path, rc, out


def eval_cases(tag, preamble, case_type, cases, judge, per_file=300):
    """Evaluate `judge : case_type -> nat` (a bit mask of failed clauses, 0 = fine) on every case inside Coq
    (vm_compute), sharded over files/cores.  `cases` are Coq terms (strings).  Returns list of ints (masks),
    or raises RuntimeError with the log if a shard does not compile."""
    d = os.path.join(WORK, '%s.%d' % (tag, os.getpid()))   # per process: concurrent runs of one property do not clash
    shutil.rmtree(d, ignore_errors=True)
    os.makedirs(d)
    shards = [cases[i:i + per_file] for i in range(0, len(cases), per_file)]
    paths = []
    for n, sh_cases in enumerate(shards):
        p = os.path.join(d, 'Cases%d.v' % n)
        with open(p, 'w') as f:
            f.write(preamble + '\n')
            f.write('Definition cases : list (%s) := [\n%s].\n' % (case_type, ';\n'.join(sh_cases)))
            f.write('Definition results : list nat := map (%s) cases.\n' % judge)
            f.write('Eval vm_compute in results.\n')
        paths.append(p)
    with multiprocessing.Pool(min(NCPU, max(1, len(paths)))) as pool:
        outs = pool.map(_coqc_case_file, paths)
    res = []
    for (p, rc, out), sh_cases in zip(outs, shards):
        if rc != 0:
            raise RuntimeError('cases file %s failed:\n%s' % (p, out[-3000:]))
        m = re.search(r'=\s*\[(.*?)\]\s*:\s*list nat', out, re.S)
        if not m:
            raise RuntimeError('cannot parse %s output:\n%s' % (p, out[-2000:]))
        body = m.group(1).strip()
        vals = [int(x) for x in re.findall(r'\d+', body)] if body else []
        if len(vals) != len(sh_cases):
            raise RuntimeError('%s: %d results for %d cases' % (p, len(vals), len(sh_cases)))
        res.extend(vals)
    shutil.rmtree(d, ignore_errors=True)
    return res


def zlit(n):
    return '(%d)' % n


def qlit(fr):
    from fractions import Fraction
    fr = Fraction(fr)
    return '((%d)#%d)' % (fr.numerator, fr.denominator)


def slit(s):
    return '"%s"' % s.replace('"', '""')


# ----------------------------------------------------------------------------------- implementation side

class CaseTimeout(Exception):
    pass


def _alarm(signum, frame):
    raise CaseTimeout()


def _worker_init():
    sys.path.insert(0, REPO)
    os.environ.setdefault('PYTHONHASHSEED', '0')
    import logging
    logging.getLogger('weasyprint').setLevel(logging.CRITICAL + 1)
    logging.getLogger('weasyprint.progress').setLevel(logging.CRITICAL + 1)
    logging.getLogger('fontTools').setLevel(logging.CRITICAL + 1)


def _worker_call(args):
    try:
        return _worker_call_inner(args)
    except CaseTimeout:   # the watchdog fired while an exception handler was running
        return ('timeout', {'site': None, 'stack': [], 'functions': []})


def _worker_call_inner(args):
    fn_mod, fn_name, case, limit = args
    import importlib
    fn = getattr(importlib.import_module(fn_mod), fn_name)
    # the limit is on the process's CPU time (independent of the machine's load); a wall-clock alarm six times
    # longer is the backstop for a worker blocked outside Python
    signal.signal(signal.SIGALRM, _alarm)
    signal.signal(signal.SIGPROF, _alarm)
    signal.setitimer(signal.ITIMER_PROF, limit)
    signal.alarm(6 * limit)
    try:
        return ('ok', fn(case))
    except CaseTimeout as exc:
        # where was the code when the watchdog fired: innermost weasyprint frame, and whether columns_layout
        # (the listed non-terminating mechanism) is on the stack
        tb = traceback.extract_tb(exc.__traceback__)
        wp = [fr for fr in tb if '/weasyprint/' in fr.filename]
        site = (os.path.relpath(wp[-1].filename, REPO), wp[-1].name) if wp else None
        names = [fr.name for fr in wp]
        return ('timeout', {'site': site, 'stack': names[-25:], 'functions': sorted(set(names))})
    except BaseException as exc:   # noqa
        tb = traceback.extract_tb(exc.__traceback__)
        site = None
        for fr in reversed(tb):
            if '/weasyprint/' in fr.filename:
                site = (type(exc).__name__, os.path.relpath(fr.filename, REPO), fr.name)
                break
        return ('exc', {'type': type(exc).__name__, 'msg': str(exc)[:300], 'site': site,
                        'tb': ''.join(traceback.format_exception(type(exc), exc, exc.__traceback__))[-1500:]})
    finally:
        # disarm first: a timer firing inside this block would raise CaseTimeout out of the worker
        signal.signal(signal.SIGPROF, signal.SIG_IGN)
        signal.signal(signal.SIGALRM, signal.SIG_IGN)
        signal.setitimer(signal.ITIMER_PROF, 0)
        signal.alarm(0)


def run_impl(fn_mod, fn_name, cases, limit=30, chunksize=8):
    """Run `fn_mod.fn_name(case)` for every case in worker processes importing weasyprint from REPO.
    Returns list of (status, value)."""
    if not cases:
        return []
    with multiprocessing.Pool(NCPU, initializer=_worker_init) as pool:
        return pool.map(_worker_call, [(fn_mod, fn_name, c, limit) for c in cases], chunksize=chunksize)


def timeout_signature(o):
    """signature of a watchdog time-out: the listed non-terminating mechanism (columns_layout on the stack) or the
    innermost weasyprint function that was running"""
    o = o or {}
    if 'columns_layout' in (o.get('functions') or o.get('stack') or ()):
        return 'timeout:columns_layout'
    return 'timeout:%s' % (tuple(o['site']) if o.get('site') else None,)


# ------------------------------------------------------------------------------------- findings, evidence

def load_known():
    p = os.path.join(VERIF, 'known_findings.json')
    if not os.path.exists(p):
        return []
    return json.load(open(p)).get('findings', [])


class Run:
    """One run of one property check."""
    def __init__(self, prop, tier, seed):
        self.prop, self.tier, self.seed = prop, tier, seed
        self.t0 = time.time()
        self.obligations = []      # (name, ok, detail)
        self.violations = []       # dict(kind, what, replay data, found_input)
        self.known_hits = []
        self.cov = {'evaluations': 0, 'distinct_nontrivial': 0, 'samples': [], 'streams': {}}
        self.distinct = set()
        self.trusted = []
        self.assumptions = []
        self.known = [k for k in load_known() if (k.get('property') == prop or prop in k.get('also', ())) and k.get('status') == 'open']
        os.makedirs(WORK, exist_ok=True)

    # -- obligations (proofs, translator targets, correspondence streams)
    def oblige(self, name, ok, detail=''):
        self.obligations.append((name, bool(ok), detail))
        return ok

    def count(self, stream, n, distinct_keys=(), samples=()):
        self.cov['evaluations'] += n
        st = self.cov['streams'].setdefault(stream, {'cases': 0})
        st['cases'] += n
        for k in distinct_keys:
            self.distinct.add((stream, k))
        for s in samples:
            if len(self.cov['samples']) < 12:
                self.cov['samples'].append({'stream': stream, 'case': s})

    def stream_info(self, stream, **kw):
        self.cov['streams'].setdefault(stream, {'cases': 0}).update(kw)

    # -- failing inputs
    def fail(self, what, data, signature=None):
        """A concrete input on which the property fails on the implementation (or a crash)."""
        for k in self.known:
            if signature is not None and k.get('signature') == signature:
                self.known_hits.append((k, what))
                return False
        self.violations.append({'kind': 'failing-input', 'what': what, 'data': data, 'signature': signature})
        return True

    def finish(self, checker_cmd):
        # listed open findings are always printed
        for k in self.known:
            print('KNOWN-FINDING: property=%s %s' % (self.prop, k.get('what', k.get('signature'))))
        broken = [(n, d) for n, ok, d in self.obligations if not ok]
        rc = 0
        os.makedirs(os.path.join(VERIF, 'replays'), exist_ok=True)
        lines = []
        if self.violations:
            for v in self.violations[:int(os.environ.get('VERIF_MAX_VIOLATIONS', '3'))]:
                h = hashlib.sha1(json.dumps(v, sort_keys=True, default=str).encode()).hexdigest()[:10]
                path = os.path.join(VERIF, 'replays', '%s-%s.json' % (self.prop, h))
                json.dump({'property': self.prop, 'seed': self.seed, 'tier': self.tier, **v,
                           'broken_obligations': [n for n, _ in broken]}, open(path, 'w'), indent=1, default=str)
                lines.append('VIOLATION property=%s replay=%s' % (self.prop, path))
            rc = 1
        elif broken:
            h = hashlib.sha1(json.dumps(broken, default=str).encode()).hexdigest()[:10]
            path = os.path.join(VERIF, 'replays', '%s-%s.json' % (self.prop, h))
            json.dump({'property': self.prop, 'seed': self.seed, 'tier': self.tier, 'kind': 'broken-obligation',
                       'broken_obligations': [{'name': n, 'detail': d[-4000:]} for n, d in broken],
                       'note': 'the searches of this run found no concrete failing input'},
                      open(path, 'w'), indent=1)
            lines.append('VIOLATION property=%s replay=%s no-failing-input-found' % (self.prop, path))
            rc = 1
        cov = self.cov
        cov['distinct_nontrivial'] = len(self.distinct)
        cov['obligations'] = len(self.obligations)
        cov['discharged'] = sum(1 for _, ok, _ in self.obligations if ok)
        cov['checker_cmd'] = checker_cmd
        cov['trusted_base'] = self.trusted
        cov['obligation_list'] = [{'name': n, 'ok': ok} for n, ok, _ in self.obligations]
        cov.setdefault('rule', 'see streams: each stream states its generator; distinct = distinct canonical '
                               'inputs exercising a non-default branch')
        ev = {'property_id': self.prop, 'tier': self.tier, 'seed': self.seed, 'level': 'proof',
              'coverage': cov, 'assumptions': self.assumptions, 'wall_s': round(time.time() - self.t0, 2),
              'violations': len(self.violations) + (1 if (broken and not self.violations) else 0),
              'known_findings_hit': [{'signature': k.get('signature'), 'what': w} for k, w in self.known_hits][:20]}
        # evidence/ describes runs against /repo itself; a run against another tree (VERIF_REPO: seeded changes,
        # candidate repairs) leaves it alone and writes under .work/
        evdir = os.path.join(VERIF, 'evidence') if os.path.realpath(REPO) == '/repo' else os.path.join(WORK, 'evidence-other-tree')
        os.makedirs(evdir, exist_ok=True)
        json.dump(ev, open(os.path.join(evdir, self.prop + '.json'), 'w'), indent=1, default=str)
        for l in lines:
            print(l)
        if rc == 0:
            print('OK property=%s obligations=%d/%d evaluations=%d wall=%.1fs' % (
                self.prop, cov['discharged'], cov['obligations'], cov['evaluations'], time.time() - self.t0))
        return rc


def prove(run, prop, targets=None, gen_only=None):
    """Steps 1-2 of every check: regenerate, build, audit."""
    written, errors = regen(gen_only)
    for t, m in errors:
        run.oblige('gen:' + t, False, m)
    ok, log = coq_make((targets or []) + ['props/%s.vo' % prop])
    run.oblige('make:props/%s.vo' % prop, ok, log)
    if ok:
        aok, thms, alog = audit_props(prop)
        if not thms:
            run.oblige('audit:%s' % prop, False, alog)
        for t, a in thms.items():
            run.oblige('thm:' + t, a == 'closed' or all(x in ALLOWED_AXIOMS for x in a),
                       'assumptions: %s' % a)
        if not aok and thms:
            run.oblige('audit:%s' % prop, False, alog)
    bad = lint_coq()
    run.oblige('lint:no-admitted-no-axiom', not bad, '\n'.join(bad))
    if ok and getattr(run, 'tier', 'quick') == 'thorough':
        # independent re-check of the compiled property file and everything it depends on, with the axiom summary
        rc, out = sh('coqchk -o -silent -Q . WV WV.props.%s' % prop, timeout=2400, cwd=COQ)
        summary = out[out.find('CONTEXT SUMMARY'):] if 'CONTEXT SUMMARY' in out else out[-1500:]
        m = re.search(r'\* Axioms:(.*?)\n\s*\n?\* Constants', summary, re.S)
        axioms = [a.strip() for a in (m.group(1).split() if m else ['?'])]
        axioms = [a for a in axioms if a != '<none>']
        # the standard library's primitive 63-bit integers (used to pack byte strings in some judges) are declared
        # there as primitives with specification axioms: allowed, and named in the evidence
        foreign = [a for a in axioms if not a.startswith('Coq.Numbers.Cyclic.Int63.')]
        if axioms:
            run.trusted.append('coqchk -o lists %d standard-library declarations of primitive integers '
                               '(Coq.Numbers.Cyclic.Int63.*) among the loaded libraries of props/%s' % (len(axioms), prop))
        clean = (rc == 0 and not foreign and 'type-in-type: <none>' in summary
                 and 'unsafe (co)fixpoints: <none>' in summary and 'positivity is assumed: <none>' in summary)
        run.oblige('coqchk:props/%s' % prop, clean, summary[-1500:])
    return ok
