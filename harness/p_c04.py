"""C04 - break controls: forced, avoided, orphans and widows."""
import random, itertools, collections
import common, fragcheck, fraggen

VALUES = ['auto', 'avoid', 'avoid-page', 'avoid-column', 'page', 'column', 'left', 'right', 'recto', 'verso']
BR = fraggen.BR
PRE = ('From Coq Require Import QArith List String Bool.\nRequire Import WV.model.Frag2 WV.model.C04Spec.\n'
       'Import ListNotations.\n')
PRE_T = ('From Coq Require Import QArith List String Bool.\nRequire Import WV.base.Py WV.model.Frag2 WV.model.C04Spec WV.model.C04SpecT.\n'
         'Import ListNotations.\n')
RANK = {'auto': 0, 'avoid': 1, 'avoid-page': 1, 'avoid-column': 1, 'column': 2, 'page': 3,
        'left': 4, 'right': 4, 'recto': 4, 'verso': 4}


# ---------------------------------------------------------------- monitor on rendered documents (spec in Python)

def chains(tree):
    """yield (A, B) adjacent block siblings with the list of values meeting between them (tree order)"""
    def before_chain(b):
        vals = []
        while b is not None and b[0] == 'blk':
            vals.append(b[1].get('ba', 'auto'))
            b = b[2][-1] if b[2] else None
        return vals[::-1]

    def after_chain(b):
        vals = []
        while b is not None and b[0] == 'blk':
            vals.append(b[1].get('bf', 'auto'))
            b = b[2][0] if b[2] else None
        return vals

    def rec(b):
        if b[0] != 'blk':
            return
        kids = b[2]
        for a, c in zip(kids, kids[1:]):
            if a[0] == 'blk' and c[0] == 'blk':
                yield a, c, before_chain(a) + after_chain(c)
        for k in kids:
            yield from rec(k)
    yield from rec(tree)


def before_chain_of(b):
    vals = []
    while b is not None and b[0] == 'blk':
        vals.append(b[1].get('ba', 'auto'))
        b = b[2][-1] if b[2] else None
    return vals[::-1]


def after_chain_of(b):
    vals = []
    while b is not None and b[0] == 'blk':
        vals.append(b[1].get('bf', 'auto'))
        b = b[2][0] if b[2] else None
    return vals


def words_of(b):
    if b[0] == 'lines':
        return list(b[1])
    return [w for k in b[2] for w in words_of(k)]


def paragraphs(b, out):
    if b[0] == 'blk':
        if len(b[2]) == 1 and b[2][0][0] == 'lines':
            out.append((b[1], b[2][0][1]))
        for k in b[2]:
            paragraphs(k, out)


def judge_breaks(doc):
    """doc: dict(root, pages) -> list of (clause, detail) violated by the implementation's pages"""
    page_of, first_of_page = {}, {}
    for pi, pg in enumerate(doc['pages']):
        for k, (w, y) in enumerate(pg):
            page_of[w] = pi
            if k == 0:
                first_of_page[pi] = w
    bad = []
    nonblank = [pi for pi, pg in enumerate(doc['pages'])]
    def edge_is_lines(b, last):
        # the first (last) descendant chain ends in a line box: the first (last) word is at the box's own edge
        while b[0] == 'blk':
            if not b[2]:
                return False
            b = b[2][-1 if last else 0]
        return bool(b[1])
    for a, b, vals in chains(doc['root']):
        wa, wb = words_of(a), words_of(b)
        if not wa or not wb or wa[-1] not in page_of or wb[0] not in page_of:
            continue
        if not edge_is_lines(a, True) or not edge_is_lines(b, False):
            continue
        top = max(RANK[v] for v in vals)
        pa, pb = page_of[wa[-1]], page_of[wb[0]]
        if top >= 3:
            if pb <= pa:
                bad.append(('forced-break-starts-new-page', (vals, wa[-1], wb[0], pa, pb)))
                continue
            if top == 4:
                side = [v for v in vals if RANK[v] == 4][-1]
                want_right = {'right': True, 'left': False, 'recto': True, 'verso': False}[side]   # ltr documents
                is_right = pb % 2 == 0          # first page is a right page in ltr
                if is_right != want_right:
                    bad.append(('forced-side', (vals, wb[0], pb)))
    # break-inside: avoid - a box that fits on a page and is preceded, on its page, by a sibling after which a break is
    # allowed (every value meeting there is auto, no ancestor avoids breaks inside) is not split
    def upper_height(b):
        if b[0] == 'lines':
            return 10 * len(b[1])
        st = b[1]
        return (sum(max(0, st.get(k, 0)) for k in ('mt', 'mb', 'pt', 'pb', 'bt', 'bb')) + sum(upper_height(k) for k in b[2]))

    def forced_inside(b):
        if b[0] != 'blk':
            return False
        return (RANK[b[1].get('bf', 'auto')] >= 2 or RANK[b[1].get('ba', 'auto')] >= 2 or any(forced_inside(k) for k in b[2]))

    def avoid_rec(b, inside_avoid):
        if b[0] != 'blk':
            return
        kids = b[2]
        for prev, box in zip([None] + list(kids), kids):
            if box[0] != 'blk':
                continue
            if (box[1].get('bi') in ('avoid', 'avoid-page') and not inside_avoid and prev is not None and prev[0] == 'blk'
                    and doc.get('H') and upper_height(box) <= doc['H'] and not forced_inside(box)):
                ws = words_of(box)
                pgs = {page_of[x] for x in ws if x in page_of}
                vals = before_chain_of(prev) + after_chain_of(box)
                if (len(pgs) > 1 and ws[0] in page_of and first_of_page.get(page_of[ws[0]]) != ws[0]
                        and words_of(prev) and all(RANK[v] == 0 for v in vals)):
                    bad.append(('avoid-inside', (box[1].get('bi'), ws, sorted(pgs))))
            avoid_rec(box, inside_avoid or box[1].get('bi') in ('avoid', 'avoid-page'))
    avoid_rec(doc['root'], False)
    # orphans / widows
    paras = []
    paragraphs(doc['root'], paras)
    for st, ids in paras:
        o, w = st.get('orphans', 1), st.get('widows', 1)
        pgs = [page_of.get(i) for i in ids]
        if any(p is None for p in pgs) or len(set(pgs)) < 2:
            continue
        cnt = collections.Counter(pgs)
        order = sorted(cnt)
        for a, b in zip(order, order[1:]):
            # lines of this paragraph left at the bottom of page a / carried to the top of the following page
            first_line_on_a = ids[pgs.index(a)]
            page_was_empty = first_of_page.get(a) == first_line_on_a
            if not page_was_empty:
                if a == order[0] and cnt[a] < o:
                    bad.append(('orphans', (o, cnt[a], ids)))
                if b == order[-1] and cnt[b] < w:
                    bad.append(('widows', (w, cnt[b], ids)))
    return bad


def check(run):
    rng = random.Random(run.seed * 7919 + 4)
    thorough = run.tier == 'thorough'
    common.prove(run, 'C04', ['model/C04Spec.vo', 'model/FragSpec.vo'])
    common.coq_make(['model/C04SpecT.vo'])
    run.trusted += ['Coq 8.16.1 kernel; vm_compute for cases.v',
                    'translator py2coq + interpreter Py.v for the break fold / force / avoid predicates (validated by stream fold-direct)',
                    'hand model Frag2.v for the traversal (find_earlier, _break_line, page sides), tied by frag2-render']
    run.assumptions += ['breaks between table rows/groups and columns use the same fold (proved) but their traversal is '
                        'covered by the C01/C10 monitors only']
    # ---- stream 1: the fold, exhaustive up to length 3 (4 in thorough), split in all ways between before/after chains
    seqs = [[]]
    for k in (1, 2, 3):
        seqs += [list(t) for t in itertools.product(VALUES, repeat=k)]
    if thorough:
        seqs += [list(t) for t in itertools.product(VALUES, repeat=4)]
    else:
        seqs += [[rng.choice(VALUES) for _ in range(rng.choice([4, 5, 6, 8]))] for _ in range(600)]
    cases = []
    for s in seqs:
        cut = rng.randint(0, len(s))
        # the values meeting at the point in tree order: s[:cut] are break-after values, deepest box first
        # (the stub chain is built outermost first), s[cut:] are break-before values, outermost first
        cases.append((s[:cut][::-1], s[cut:]))
    outs = common.run_impl('impl_c04', 'fold', cases, chunksize=64)
    coq = []
    for (b, a), (st, o) in zip(cases, outs):
        if st != 'ok' or o not in BR:
            run.fail('block_level_page_break raised or returned %r' % (o,), {'stream': 'fold-direct', 'case': [b, a], 'outcome': o})
            continue
        coq.append('([%s], %s)' % ('; '.join(BR[v] for v in b[::-1] + a), BR[o]))
    try:
        masks = common.eval_cases('c04fold', PRE, 'list brk * brk', coq, 'fold_judge', per_file=800)
        run.oblige('corr:fold-direct(Frag2.fold_breaks = implementation)', not any(m & 1 for m in masks))
        for (b, a), m in zip(cases, masks):
            if m & 2:
                run.fail('break value resolution: the strongest value does not win', {'stream': 'fold-direct', 'case': [b, a]})
                break
        run.count('fold-direct', len(coq), [tuple(b[::-1] + a) for b, a in cases], samples=[cases[5], cases[-1]])
        run.stream_info('fold-direct', exhaustive_up_to_length=4 if thorough else 3,
                        rule='all value sequences over the 10 break values up to the stated length + random longer ones, '
                             'split at a random point into the before / after chains of nested stub boxes')
    except RuntimeError as exc:
        run.oblige('corr:fold-direct', False, str(exc))
    try:
        masks_t = common.eval_cases('c04foldT', PRE_T, 'list brk * brk', coq, 'foldT_judge', per_file=800)
        run.oblige('corr:fold-direct(interpreter(py2coq(source)) = implementation)', not any(masks_t))
    except RuntimeError as exc:
        run.oblige('corr:fold-direct(interpreter(py2coq(source)) = implementation)', False, str(exc))
    pc = [(v, c) for v in VALUES for c in (False, True)]
    outs = common.run_impl('impl_c04', 'preds', pc)
    coq = ['(%s, %s, %s, %s)' % (BR[v], str(c).lower(), str(o[0]).lower(), str(o[1]).lower())
           for (v, c), (st, o) in zip(pc, outs) if st == 'ok']
    try:
        masks = common.eval_cases('c04pred', PRE, 'brk * bool * bool * bool', coq, 'pred_judge')
        run.oblige('corr:force/avoid-direct(exhaustive)', len(coq) == len(pc) and not any(masks))
        run.count('force-avoid-direct', len(coq), pc)
        run.stream_info('force-avoid-direct', exhaustive=True)
    except RuntimeError as exc:
        run.oblige('corr:force/avoid-direct', False, str(exc))
    # ---- stream 2: documents rich in breaks: model pages = implementation pages; spec judged on implementation pages
    try:
        res = fragcheck.frag_stream(run, rng, 2500 if thorough else 450, 'c04frag',
                                    feats=('margin', 'pad', 'ow', 'break', 'clone'))
        # blocks whose content fits but whose bottom padding / border does not (second layout of _in_flow_layout),
        # with break-inside: avoid / orphans / widows around them
        res += fragcheck.frag_stream(run, rng, 1500 if thorough else 300, 'c04padfit', docgen=fraggen.padfit_document)
        # paragraphs with orphans <> widows before an avoided break (line-box case of find_earlier_page_break)
        res += fragcheck.frag_stream(run, rng, 900 if thorough else 200, 'c04avoidpara', docgen=fraggen.avoidpara_document)
        mism = [d for d, m in res if m & 1]
        run.oblige('corr:frag2-render(model pages = implementation pages)', not mism,
                   'first disagreements: %s' % [(d['H'], d['html']) for d in mism[:2]])
        nforced = nsplit = 0
        keys = []
        for d, m in res:
            bad = judge_breaks(d) + fragcheck.judge_blank_pages(d)
            for clause, detail in bad[:1]:
                run.fail('break control not honoured: %s %s' % (clause, detail),
                         {'stream': 'frag2-render', 'html': d['html'], 'clause': clause, 'detail': detail},
                         signature='break:%s' % clause)
            f = sum(1 for _, _, vals in chains(d['root']) if max(RANK[v] for v in vals) >= 3)
            nforced += f
            if f or len(d['pages']) > 1:
                keys.append(fragcheck.doc_key(d))
        run.count('frag2-render', len(res), keys, samples=[res[0][0]['html'][-400:]] if res else [])
        run.stream_info('frag2-render', forced_boundaries=nforced,
                        rule='fraggen.py with every break-before/after/inside value, orphans/widows 1..4, and padfit documents '
                             '(content fits, bottom decoration does not, avoid / orphans / widows around), avoidpara documents (a paragraph with '
                             'orphans <> widows that fits, before an avoided break that overflows); judged: model pages = '
                             'implementation pages; forced boundary => next page (and side); break-inside: avoid boxes that fit and follow '
                             'an allowed break are not split; orphans/widows kept unless the page '
                             'was empty')
    except RuntimeError as exc:
        run.oblige('corr:frag2-render', False, str(exc))
    # ---- stream 3: forced breaks between table rows (same fold, different traversal: monitor only)
    table_stream(run, rng, 1500 if thorough else 300)


def table_doc(rng):
    """a table whose rows carry break-before/after values; returns (html, rows=[(words, ba, bf)], H)"""
    n = [0]
    def w():
        n[0] += 1
        return fraggen.word(n[0])
    H = rng.choice([40, 60, 100])
    rows = []
    parts = []
    head = ''
    if rng.random() < 0.4:
        hw = w()
        head = '<thead><tr><td>%s</td></tr></thead>' % hw
    for _ in range(rng.choice([2, 3, 5, 8])):
        bf = rng.choice(['auto'] * 5 + ['page', 'left', 'right', 'recto', 'verso', 'avoid'])
        ba = rng.choice(['auto'] * 6 + ['page', 'left', 'right', 'avoid'])
        ws = [w() for _ in range(rng.choice([1, 1, 2]))]
        rows.append((ws, ba, bf))
        parts.append('<tr style="break-before:%s;break-after:%s"><td>%s</td></tr>' % (bf, ba, '<br>'.join(ws)))
    html = ('<style>@page{size:100px %dpx;margin:0}html{font-family:weasyprint;font-size:10px;line-height:10px}body{margin:0}'
            'td{padding:0}table{border-spacing:0}</style><p>%s</p><table>%s<tbody>%s</tbody></table>' % (H, w(), head, ''.join(parts)))
    return html, rows, H


def judge_table(rows, pages):
    page_of = {}
    for pi, ws in enumerate(pages):
        for x in ws:
            page_of.setdefault(x, pi)
    bad = []
    for (wa, ba, _), (wb, _, bf) in zip(rows, rows[1:]):
        vals = [ba, bf]
        top = max(RANK[v] for v in vals)
        if top < 3 or wa[-1] not in page_of or wb[0] not in page_of:
            continue
        pa, pb = page_of[wa[-1]], page_of[wb[0]]
        if pb <= pa:
            bad.append(('forced-break-starts-new-page[table-row]', (vals, wa[-1], wb[0], pa, pb)))
        elif top == 4:
            side = [v for v in vals if RANK[v] == 4][-1]
            want_right = {'right': True, 'left': False, 'recto': True, 'verso': False}[side]
            if (pb % 2 == 0) != want_right:
                bad.append(('forced-side[table-row]', (vals, wb[0], pb)))
    return bad


def table_stream(run, rng, n):
    docs = [table_doc(rng) for _ in range(n)]
    outs = common.run_impl('impl_wide', 'render_words', [{'html': h} for h, _, _ in docs], limit=60)
    nforced = 0
    for (html, rows, H), (st, o) in zip(docs, outs):
        if st != 'ok':
            run.fail('render failed: %s' % (o if st != 'exc' else o['type']), {'stream': 'table-breaks', 'html': html},
                     signature='timeout' if st == 'timeout' else 'crash:%s' % (o.get('site'),))
            continue
        nforced += sum(1 for (_, ba, _), (_, _, bf) in zip(rows, rows[1:]) if max(RANK[ba], RANK[bf]) >= 3)
        for clause, detail in judge_table(rows, o['pages'])[:1]:
            run.fail('break control not honoured: %s %s' % (clause, detail),
                     {'stream': 'table-breaks', 'html': html, 'clause': clause, 'rows': rows}, signature='break:%s' % clause)
    run.count('table-breaks', len(docs), [(H, len(rows)) for _, rows, H in docs], samples=[docs[0][0][-300:]])
    run.stream_info('table-breaks', forced_boundaries=nforced,
                    rule='tables whose rows carry break-before/after values; forced value between two rows => next page, '
                         'requested side')
    # ---- avoided breaks never lose content: out-of-flow boxes between in-flow siblings, many avoid values
    import p_c01, fragcheck
    thorough = run.tier == 'thorough'
    adocs = [p_c01.avoid_document(rng) for _ in range(1500 if thorough else 300)]
    outs = common.run_impl('impl_wide', 'render_words', [{'html': h} for h, _, _ in adocs], limit=60)
    for (html, leaves, H), (st, o) in zip(adocs, outs):
        if st != 'ok':
            run.fail('render failed: %s' % (o if st != 'exc' else o['type']), {'stream': 'avoid-conservation', 'html': html},
                     signature='timeout' if st == 'timeout' else 'crash:%s' % (o.get('site'),))
            continue
        for failure, lf in fragcheck.judge_conservation(leaves, o['pages'])[:1]:
            if failure in ('lost', 'duplicated'):
                run.fail('an avoided break made content %s: words %s of a %s' % (failure, lf['words'][:3], lf['kind']),
                         {'stream': 'avoid-conservation', 'html': html, 'leaf': lf, 'pages': o['pages']},
                         signature=fragcheck.signature_of(failure, lf))
    run.count('avoid-conservation', len(adocs), [(H, len(l)) for _, l, H in adocs], samples=[adocs[0][0][-300:]])
    run.stream_info('avoid-conservation', rule='p_c01.avoid_document: floats / absolutes between in-flow siblings, '
                    'break-before/after/inside: avoid everywhere; every word exactly once')
    # ---- a change of named page always starts a new page (and only that does, on a tall page)
    ndocs = [named_page_document(rng) for _ in range(1200 if thorough else 250)]
    outs = common.run_impl('impl_wide', 'render_words', [{'html': h} for h, _ in ndocs], limit=60)
    nchanges = 0
    for (html, leaves), (st, o) in zip(ndocs, outs):
        if st != 'ok':
            run.fail('render failed: %s' % (o if st != 'exc' else o['type']), {'stream': 'named-pages', 'html': html},
                     signature='timeout' if st == 'timeout' else 'crash:%s' % (o.get('site'),))
            continue
        nchanges += sum(1 for (_, a), (_, b) in zip(leaves, leaves[1:]) if a != b)
        found = judge_named_pages(leaves, o['pages'])
        found.sort(key=lambda cd: cd[0] == 'named-to-unnamed-without-page-break')
        for clause, detail in found[:1]:
            run.fail('named pages: %s %s' % (clause, detail), {'stream': 'named-pages', 'html': html, 'leaves': leaves,
                                                              'clause': clause}, signature='page-name:%s' % clause)
    run.count('named-pages', len(ndocs), [tuple(n for _, n in l) for _, l in ndocs], samples=[ndocs[0][0][-300:]])
    run.stream_info('named-pages', name_changes=nchanges,
                    rule='nested containers with page: a|b|c|auto at every level; used name = nearest named ancestor-or-self; '
                         'consecutive paragraphs: different names <=> different pages')


# ------------------------------------------------------------------------------------------- named pages
def named_page_document(rng):
    """nested containers and paragraphs with `page` names; returns (html, [(word, used page name)])"""
    import fraggen
    leaves = []
    n = [0]

    def block(depth, inherited):
        name = rng.choice(['', '', 'auto', 'a', 'b', 'c'])
        used = inherited if name in ('', 'auto') else name
        st = ('page:%s' % name) if name else ''
        if depth >= 3 or rng.random() < 0.4:
            w = fraggen.word(n[0]); n[0] += 1
            leaves.append((w, used))
            return '<p style="margin:0;%s">%s</p>' % (st, w)
        kids = ''.join(block(depth + 1, used) for _ in range(rng.choice([1, 2, 3])))
        tag = rng.choice(['div', 'section', 'article'])
        if rng.random() < 0.15:
            return '<table style="%s"><tr><td>%s</td></tr></table>' % (st, kids) if False else '<%s style="%s">%s</%s>' % (tag, st, kids, tag)
        return '<%s style="%s">%s</%s>' % (tag, st, kids, tag)
    body = ''.join(block(0, '') for _ in range(rng.choice([2, 3, 5])))
    html = ('<style>@page{size:200px 400px;margin:0} html{font-family:weasyprint;font-size:10px;line-height:10px}'
            'body{margin:0}</style>' + body)
    return html, leaves


def judge_named_pages(leaves, pages):
    """css-page-3: a forced break lies between two boxes whose end / start page values differ, i.e. between two
    consecutive paragraphs whose used page names differ; nothing else breaks these one-line paragraphs (the page is
    tall): every page shows paragraphs of one name, and consecutive same-name paragraphs share a page"""
    where = {}
    for i, p in enumerate(pages):
        for w in p:
            where.setdefault(w, []).append(i)
    bad = []
    for w, _ in leaves:
        if len(where.get(w, [])) != 1:
            bad.append(('paragraph-not-once', w))
    if bad:
        return bad
    for (w1, n1), (w2, n2) in zip(leaves, leaves[1:]):
        p1, p2 = where[w1][0], where[w2][0]
        if n1 != n2 and p1 == p2:
            # going back to the unnamed page does not break in WeasyPrint (pinned by tests/layout/test_page.py::
            # test_page_names_4): listed finding, own clause
            bad.append(('named-to-unnamed-without-page-break' if n2 == '' else 'name-change-without-page-break',
                        (w1, n1, w2, n2)))
        if n1 == n2 and p1 != p2:
            bad.append(('page-break-without-name-change', (w1, w2, n1)))
    return bad


def replay(data):
    d = data.get('data', {})
    if d.get('stream') == 'table-breaks':
        (st, o), = common.run_impl('impl_wide', 'render_words', [{'html': d['html']}])
        bad = judge_table([tuple(r) for r in d['rows']], o['pages']) if st == 'ok' else [(st,)]
        print(bad)
        return 1 if bad else 0
    if d.get('stream') == 'named-pages':
        (st, o), = common.run_impl('impl_wide', 'render_words', [{'html': d['html']}])
        bad = judge_named_pages([tuple(x) for x in d['leaves']], o['pages']) if st == 'ok' else [(st,)]
        print(bad)
        return 1 if bad else 0
    if d.get('stream') == 'avoid-conservation':
        import fragcheck
        (st, o), = common.run_impl('impl_wide', 'render_words', [{'html': d['html']}])
        bad = [b for b in fragcheck.judge_conservation([d['leaf']], o['pages']) if b[0] != 'unknown-word'] if st == 'ok' else [(st,)]
        print(bad)
        return 1 if bad else 0
    if d.get('stream') == 'fold-direct':
        (st, o), = common.run_impl('impl_c04', 'fold', [tuple(d['case'])])
        print('implementation answers', o)
        masks = common.eval_cases('c04replay', PRE, 'list brk * brk',
                                  ['([%s], %s)' % ('; '.join(BR[v] for v in d['case'][0][::-1] + d['case'][1]), BR[o])], 'fold_judge')
        print('mask', masks)
        return 1 if masks[0] else 0
    if d.get('stream') == 'frag2-render':
        (st, o), = common.run_impl('impl_frag', 'render_lines', [{'html': d['html']}])
        print(st, o)
        return 1
    return 0
