"""C08 - Box generation: right boxes, anonymous fix-ups, text preserved."""
import random, itertools, json, os, glob, re
from collections import Counter
import common
from common import zlit

HDR = 'From Coq Require Import ZArith List Bool Ascii.\nImport ListNotations.\n'
PRE_WS = HDR + 'Require Import WV.model.C08Whitespace.\n'
PRE_TAB = HDR + 'Require Import WV.model.C08Table.\nOpen Scope Z_scope.\n'
PRE_DISP = HDR + 'Require Import WV.model.C08Display.\n'
PRE_TREE = HDR + 'Require Import WV.model.C08Tree.\n'
PRE_FIX = HDR + 'Require Import WV.model.C08Tree WV.model.C08Fixups.\n'

WS = ['normal', 'nowrap', 'pre', 'pre-wrap', 'pre-line', 'break-spaces']
WSC = {'normal': 'WNormal', 'nowrap': 'WNowrap', 'pre': 'WPre', 'pre-wrap': 'WPreWrap', 'pre-line': 'WPreLine',
       'break-spaces': 'WBreakSpaces'}
COLLAPSING = ('normal', 'nowrap', 'pre-line')
TTC = {'none': 'TNone', 'uppercase': 'TUpper', 'lowercase': 'TLower', 'capitalize': 'TCapitalize',
       'full-width': 'TFullWidth'}

# signatures of the findings of this property (known_findings.json, status open)
SIG_OVERLAP = 'colspan-overlaps-rowspan-slot'
SIG_WS_OUTFLOW = 'ws-not-collapsed-across-inline-in-out-of-flow-box'
SIG_GEN_BLOCK = 'generated-content-of-non-inline-pseudo-not-processed'
SIG_BLOCKIFY = 'blockification-drops-inner-display-type'
SIG_FLEX_TABLE = 'inline-table-flex-item-loses-table-wrapper'
SIG_LOST_FLOAT = 'lost:word-before-float-at-line-break'


def bl(b):
    return 'true' if b else 'false'


def codes(s):
    return '[%s]' % ';'.join(str(x) for x in s.encode('utf-8'))


def corpus(stream):
    out = []
    for p in sorted(glob.glob(os.path.join(common.VERIF, 'corpus', 'C08', '*.json'))):
        d = json.load(open(p))
        if d.get('stream') == stream:
            out.append(d['case'])
    return out


# ================================================================== 1. white-space, direct calls

WS_ATOMS = [' ', ' ', '  ', '\t', '\n', '\r', '\r\n', ' \n ', '\t\n', 'a', 'b', 'ab', 'é', '　', '\xa0', '\x0c']


def rtext(rng, n):
    return ''.join(rng.choice(WS_ATOMS) for _ in range(n))


def gen_ws_text_cases(rng, n):
    cases = []
    # exhaustive: every string of length <= 3 over {space, tab, LF, CR, a} x white-space x flag
    for k in range(0, 4):
        for tup in itertools.product(' \t\n\ra', repeat=k):
            for ws in WS:
                for f in (False, True):
                    cases.append(dict(ws=ws, f=f, text=''.join(tup)))
    while len(cases) < n:
        cases.append(dict(ws=rng.choice(WS), f=rng.random() < .5, text=rtext(rng, rng.choice([1, 2, 3, 5, 8, 13]))))
    return cases


def cnode(n):
    if n[0] == 'T':
        return '(CT %s %s %s)' % (WSC[n[1]], bl(n[2]), codes(n[3]))
    if n[0] == 'I':
        return '(CI %s %s [%s])' % (bl(n[1]), bl(n[2]), ';'.join(cnode(k) for k in n[3]))
    return '(CO %s)' % bl(n[1])


def gen_ws_node(rng, d, pws):
    r = rng.random()
    if r < .55 or d >= 3:
        ws = rng.choice(WS) if rng.random() < .25 else pws
        return ['T', ws, rng.random() < .1, rtext(rng, rng.choice([0, 1, 1, 2, 3]))]
    if r < .85:
        run = rng.random() < .08
        ws = rng.choice(WS) if rng.random() < .2 else pws
        return ['I', rng.random() < .9 and not run, run, [gen_ws_node(rng, d + 1, ws) for _ in range(rng.choice([0, 1, 2, 3]))]]
    return ['O', rng.random() < .7]


def stream_ws(run, rng, thorough):
    # ---- one TextBox
    cases = corpus('ws-text') + gen_ws_text_cases(rng, 12000 if thorough else 4000)
    outs = common.run_impl('impl_c08', 'ws_text', cases, chunksize=64)
    coq, kept = [], []
    for c, (st, o) in zip(cases, outs):
        if st != 'ok':
            run.fail('process_whitespace raised %s' % (o,), {'stream': 'ws-text', 'case': c, 'outcome': o},
                     signature='crash:%s' % (o and o.get('site'),))
            continue
        coq.append('(%s,%s,%s,%s,%s,%s)' % (WSC[c['ws']], bl(c['f']), codes(c['text']), codes(o[0]), bl(o[1]), bl(o[2])))
        kept.append((c, o))
    try:
        masks = common.eval_cases('c08wst', PRE_WS, 'wsv * bool * list nat * list nat * bool * bool', coq, 'text_judge',
                                  per_file=max(300, len(coq) // 15))
        mism = [(c, o) for (c, o), m in zip(kept, masks) if m & 1]
        run.oblige('corr:ws-text(process_whitespace on one TextBox vs pw_text)', not mism, 'first: %s' % mism[:3])
        for (c, o), m in zip(kept, masks):
            if m & 2:
                run.fail('process_whitespace output is not what CSS Text 3 4.1 prescribes for white-space:%s' % c['ws'],
                         {'stream': 'ws-text', 'case': c, 'impl_output': o}, signature='ws-text-spec')
                break
        run.count('ws-text', len(kept), [(c['ws'], c['f'], c['text']) for c, _ in kept],
                  samples=[{'case': kept[700][0], 'impl': kept[700][1]}])
        run.stream_info('ws-text', rule='all strings of length <= 3 over {space,tab,LF,CR,a} x 6 white-space values x flag, '
                        'then random strings over spaces/tabs/LF/CR/CRLF/letters/non-ASCII; distinct = (white-space, flag, text)')
    except RuntimeError as exc:
        run.oblige('corr:ws-text', False, str(exc))
    # ---- threading over the children of a box
    cases = corpus('ws-tree')
    while len(cases) < (8000 if thorough else 1800):
        pws = rng.choice(WS) if rng.random() < .3 else 'normal'
        cases.append(dict(pflow=rng.random() < .75, run=False, f=rng.random() < .3,
                          kids=[gen_ws_node(rng, 0, pws) for _ in range(rng.choice([1, 2, 3, 4, 5]))]))
    outs = common.run_impl('impl_c08', 'ws_tree', cases, chunksize=32)
    coq, kept = [], []
    for c, (st, o) in zip(cases, outs):
        if st != 'ok':
            run.fail('process_whitespace raised %s' % (o,), {'stream': 'ws-tree', 'case': c, 'outcome': o},
                     signature='crash:%s' % (o and o.get('site'),))
            continue
        coq.append('(%s,%s,%s,[%s],[%s],%s)' % (bl(c['pflow']), bl(c['run']), bl(c['f']), ';'.join(cnode(k) for k in c['kids']),
                                                 ';'.join(cnode(k) for k in o[0]), bl(o[1])))
        kept.append((c, o))
    try:
        masks = common.eval_cases('c08wsk', PRE_WS, 'bool * bool * bool * list cnode * list cnode * bool', coq, 'tree_judge',
                                  per_file=max(200, len(coq) // 15))
        mism = [(c, o) for (c, o), m in zip(kept, masks) if m & 1]
        run.oblige('corr:ws-tree(process_whitespace over children vs pw_kids)', not mism, 'first: %s' % mism[:2])
        for (c, o), m in zip(kept, masks):
            if m & 2:
                run.fail('two adjacent collapsible spaces survive in an in-flow inline formatting context',
                         {'stream': 'ws-tree', 'case': c, 'impl_output': o}, signature='ws-double-space')
                break
        run.count('ws-tree', len(kept), [json.dumps(c, sort_keys=True) for c, _ in kept], samples=[kept[0][0]])
        run.stream_info('ws-tree', rule='random trees (depth <= 3) of TextBox / InlineBox (in flow or not, running or not) / '
                        'other boxes under a block parent in or out of flow, incoming flag set or not',
                        out_of_flow_parent=sum(1 for c, _ in kept if not c['pflow']))
    except RuntimeError as exc:
        run.oblige('corr:ws-tree', False, str(exc))
    # ---- text-transform
    cases = []
    alphabet = 'abzAZ09 -\t\n.,\'"(é'
    for tt in TTC:
        for k in range(0, 4):
            for tup in itertools.product('aZ 1-', repeat=k):
                cases.append(dict(tt=tt, text=''.join(tup)))
    while len(cases) < (4000 if thorough else 1500):
        cases.append(dict(tt=rng.choice(list(TTC)), text=''.join(rng.choice(alphabet[:-1]) for _ in range(rng.choice([1, 3, 6, 10])))))
    outs = common.run_impl('impl_c08', 'tt_text', cases, chunksize=64)
    coq, kept = [], []
    for c, (st, o) in zip(cases, outs):
        if st != 'ok':
            run.fail('process_text_transform raised', {'stream': 'text-transform', 'case': c, 'outcome': o})
            continue
        coq.append('(%s,%s,%s)' % (TTC[c['tt']], codes(c['text']), codes(o)))
        kept.append((c, o))
    try:
        masks = common.eval_cases('c08tt', PRE_WS, 'ttv * list nat * list nat', coq, 'tt_judge', per_file=max(300, len(coq) // 8))
        mism = [(c, o) for (c, o), m in zip(kept, masks) if m]
        run.oblige('corr:text-transform(ASCII, process_text_transform vs tt_text)', not mism, 'first: %s' % mism[:3])
        run.count('text-transform', len(kept), [(c['tt'], c['text']) for c, _ in kept])
        run.stream_info('text-transform', rule='all strings of length <= 3 over {a,Z,space,1,-} x 5 values, then random ASCII')
    except RuntimeError as exc:
        run.oblige('corr:text-transform', False, str(exc))


# ================================================================== 2. table slot assignment

def gen_table(rng, mode):
    """mode 'clear': rejection-free construction that keeps the side condition likely; 'any': anything"""
    groups = []
    for _ in range(rng.choice([1, 1, 2, 3])):
        kind = rng.choice(['tbody', 'tbody', 'thead', 'tfoot'])
        rows = []
        for _ in range(rng.choice([1, 2, 3, 4, 5])):
            rows.append([(rng.choice([1, 1, 1, 2, 3, 4]), rng.choice([1, 1, 1, 0, 2, 3, 4, 9]))
                         for _ in range(rng.choice([0, 1, 2, 3, 4]))])
        groups.append((kind, rows))
    ncol = rng.choice([0, 0, 1, 3, 6])
    return dict(groups=groups, ncol=ncol, collapse=rng.random() < .8)


def table_html(t):
    h = '<table style="border-collapse:%s">' % ('collapse' if t['collapse'] else 'separate')
    if t['ncol']:
        h += '<colgroup span=%d></colgroup>' % t['ncol']
    for kind, rows in t['groups']:
        h += '<%s>' % kind
        for row in rows:
            h += '<tr>' + ''.join('<td colspan=%d rowspan=%d>x</td>' % tuple(c) for c in row) + '</tr>'
        h += '</%s>' % kind
    return h + '</table>'


def py_slots(groups):
    """independent port of the HTML table model for the side condition only (is any slot of a cell, other than
    its first, occupied from above?) -- used to keep the general stream inside the partial theorem"""
    clear = True
    for rows in groups:
        occ = [set() for _ in rows]
        for y, row in enumerate(rows):
            x = 0
            for cs, rs in row:
                while x in occ[y]:
                    x += 1
                if any((x + i) in occ[y] for i in range(cs)):
                    clear = False
                left = len(rows) - y
                rs2 = left if rs == 0 else min(rs, left)
                for yy in range(y + 1, y + rs2):
                    occ[yy].update(range(x, x + cs))
                x += cs
    return clear


def coq_table_case(t):
    gin = '[%s]' % ';'.join('[%s]' % ';'.join('[%s]' % ';'.join('(%s,%s)' % (zlit(x[0]), zlit(x[1])) for x in row)
                                            for row in g) for g in t['groups'])
    gout = '[%s]' % ';'.join('[%s]' % ';'.join('[%s]' % ';'.join('(%s,%s,%s)' % (zlit(x[2]), zlit(x[3]), zlit(x[4])) for x in row)
                                             for row in g) for g in t['groups'])
    return '(%s,%s,%s,%s)' % (zlit(t['ncols']), gin, gout, zlit(t['grid_width']))


TAB_TYPE = 'Z * list (list (list cellin)) * list (list (list cellout)) * Z'
PROBE_OVERLAP = dict(groups=[('tbody', [[(1, 1), (1, 2)], [(2, 1)]])], ncol=0, collapse=True)


def judge_tables(run, stream, recs, htmls):
    """recs: list of (table record, html index); returns masks"""
    coq = [coq_table_case(t) for t, _ in recs]
    masks = common.eval_cases('c08tab' + stream.replace('-', ''), PRE_TAB, TAB_TYPE, coq, 'table_judge',
                              per_file=max(100, len(coq) // 15))
    return masks


def group_order_ok(kinds):
    """header first, footer last, the others in between, at most one of each flagged"""
    heads = [i for i, k in enumerate(kinds) if k[1]]
    foots = [i for i, k in enumerate(kinds) if k[2]]
    if len(heads) > 1 or len(foots) > 1:
        return False
    if heads and heads[0] != 0:
        return False
    if foots and foots[0] != len(kinds) - 1:
        return False
    # the first table-header-group / table-footer-group must be the flagged ones
    if not heads and any(k[0] == 'table-header-group' for k in kinds):
        return False
    if not foots and any(k[0] == 'table-footer-group' for k in kinds):
        return False
    return True


def cols_ok(t):
    x = 0
    for gx, cols in t['cols']:
        if gx != x:
            return False
        for c in cols:
            if c != x:
                return False
            x += 1
    return True


def stream_tables(run, rng, thorough):
    # ---- the dedicated probe of the listed finding: [[1x1, 1x2]; [2x1]]
    (st, o), = common.run_impl('impl_c08', 'table_slots', [{'html': table_html(PROBE_OVERLAP)}])
    if st == 'ok' and o:
        m = judge_tables(run, 'probe', [(o[0], 0)], None)[0]
        run.oblige('corr:table-probe(model = implementation on the refutation witness)', not (m & 1), 'mask %d' % m)
        if m & 8:
            run.fail('a cell with colspan > 1 overlaps the slot owned by a row-spanning cell from the row above',
                     {'stream': 'table-probe', 'html': table_html(PROBE_OVERLAP), 'record': o[0]}, signature=SIG_OVERLAP)
    else:
        run.oblige('corr:table-probe', False, str(o))
    # ---- general stream, inside the side condition
    cases, dropped = [], 0
    for c in corpus('table-slots'):
        cases.append(c)
    target = 4000 if thorough else 1200
    while len(cases) < target:
        t = gen_table(rng, 'any')
        if not py_slots([rows for _, rows in sorted(t['groups'], key=lambda g: {'thead': 0, 'tbody': 1, 'tfoot': 2}[g[0]])]) \
                and not py_slots([rows for _, rows in t['groups']]):
            dropped += 1
            if rng.random() < .9:
                continue
            # repair: make every cell of the offending table 1 column wide
            t['groups'] = [(k, [[(1, r) for _, r in row] for row in rows]) for k, rows in t['groups']]
        cases.append(t)
    outs = common.run_impl('impl_c08', 'table_slots', [{'html': table_html(t)} for t in cases], chunksize=16)
    recs = []
    for i, (t, (st, o)) in enumerate(zip(cases, outs)):
        if st != 'ok':
            run.fail('building the box tree of a table raised %s' % (o and o.get('site'),),
                     {'stream': 'table-slots', 'html': table_html(t), 'outcome': o}, signature='crash:%s' % (o and o.get('site'),))
            continue
        if len(o) != 1:
            run.fail('one <table> gave %d table boxes' % len(o), {'stream': 'table-slots', 'html': table_html(t)},
                     signature='table-count')
            continue
        recs.append((o[0], i))
    try:
        masks = judge_tables(run, 'slots', recs, None)
        mism = [(table_html(cases[i]), r) for (r, i), m in zip(recs, masks) if m & 1]
        run.oblige('corr:table-slots(wrap_table grid loop vs do_table, through the full box building)', not mism,
                   'first: %s' % mism[:2])
        outside = 0
        for (r, i), m in zip(recs, masks):
            if m & 2:
                run.fail('table slot assignment violates a proved clause (first free slot / rowspan clipping / width / '
                         'overlap inside the side condition)', {'stream': 'table-slots', 'html': table_html(cases[i]), 'record': r},
                         signature='table-slots-spec')
                break
            if m & 4:
                outside += 1
            if not group_order_ok(r['kinds']):
                run.fail('row groups are not ordered header, bodies, footer', {'stream': 'table-slots', 'html': table_html(cases[i]),
                                                                               'kinds': r['kinds']}, signature='table-group-order')
                break
            if not cols_ok(r):
                run.fail('columns do not get consecutive grid_x', {'stream': 'table-slots', 'html': table_html(cases[i]),
                                                                   'cols': r['cols']}, signature='table-col-grid-x')
                break
        run.count('table-slots', len(recs), [json.dumps([r['groups'], r['ncols']]) for r, _ in recs],
                  samples=[table_html(cases[recs[0][1]])])
        run.stream_info('table-slots', rule='1-3 row groups (thead/tbody/tfoot) x 1-5 rows x 0-4 cells, colspan 1-4, rowspan in '
                        '{0,1,2,3,4,9}, 0-6 columns; tables whose colspan>1 cells would reach an occupied slot are dropped or '
                        'repaired (side condition of cells_do_not_overlap_partial)', dropped_outside_side_condition=dropped,
                        judged_outside_side_condition=outside,
                        with_rowspan0=sum(1 for t in cases if any(r == 0 for _, rows in t['groups'] for row in rows for _, r in row)))
    except RuntimeError as exc:
        run.oblige('corr:table-slots', False, str(exc))


# ================================================================== 3. fix-ups, direct calls

KIND_OF = {'LineBox': 'KLine', 'BlockBox': 'KBlock', 'InlineBox': 'KInline', 'InlineBlockBox': 'KInlineBlock', 'TableBox': 'KTable',
           'InlineTableBox': 'KInlineTable', 'FlexBox': 'KFlex', 'InlineFlexBox': 'KInlineFlex', 'GridBox': 'KGrid',
           'InlineGridBox': 'KInlineGrid', 'TableRowBox': 'KRow', 'TableRowGroupBox': 'KRowGroup', 'TableColumnBox': 'KCol',
           'TableColumnGroupBox': 'KColGroup', 'TableCellBox': 'KCell', 'TableCaptionBox': 'KCaption', 'TextBox': 'KText'}
ATB_KINDS = ['BlockBox', 'BlockBox', 'InlineBox', 'InlineBox', 'InlineBlockBox', 'TableBox', 'InlineTableBox', 'FlexBox',
             'TableRowBox', 'TableRowBox', 'TableRowGroupBox', 'TableRowGroupBox', 'TableColumnBox', 'TableColumnGroupBox',
             'TableCellBox', 'TableCellBox', 'TableCaptionBox', 'TextBox', 'TextBox', 'TextBox']


def box_term(t, n=[0]):
    kind, a, kids = t
    return '(B %s (mkA %s %s false false %s %s %s %d %s 0) [%s])' % (
        KIND_OF[kind], bl(a.get('flow', True)), bl(a.get('abs', False)), bl(a.get('empty', False)), bl(a.get('space', False)),
        bl(a.get('wsonly', False) or a.get('space', False) or a.get('empty', False)), a.get('grp', 0), bl(a.get('capbot', False)),
        ';'.join(box_term(k) for k in kids))


def gen_atb_tree(rng, depth, parent=None):
    kind = rng.choice(ATB_KINDS)
    if parent in ('TableBox', 'InlineTableBox', 'TableRowGroupBox', 'TableRowBox') and rng.random() < .5:
        kind = rng.choice(['TableRowBox', 'TableCellBox', 'TableRowGroupBox', 'TextBox', 'TableCaptionBox', 'TableColumnBox'])
    a = {}
    if kind == 'TextBox':
        if rng.random() < .6:
            a['wsonly'] = True
        return [kind, a, []]
    if rng.random() < .1:
        a['flow'] = False
        if rng.random() < .5:
            a['abs'] = True
    if kind == 'TableRowGroupBox':
        a['grp'] = rng.choice([0, 0, 1, 2])
    if kind == 'TableCaptionBox':
        a['capbot'] = rng.random() < .4
    kids = [] if depth >= 3 else [gen_atb_tree(rng, depth + 1, kind) for _ in range(rng.choice([0, 1, 2, 3, 4]))]
    return [kind, a, kids]


def gen_iib_tree(rng, depth, root=False):
    kind = 'BlockBox' if root else rng.choice(['BlockBox', 'InlineBox', 'InlineBox', 'InlineBlockBox', 'TextBox', 'TextBox', 'TextBox'])
    a = {}
    if kind == 'TextBox':
        r = rng.random()
        if r < .15:
            a['empty'] = True
        elif r < .4:
            a['space'] = True
        return [kind, a, []]
    if not root and rng.random() < .2:
        a['flow'] = False
        if rng.random() < .5:
            a['abs'] = True
    kids = [] if depth >= 3 else [gen_iib_tree(rng, depth + 1) for _ in range(rng.choice([0, 1, 2, 3, 5]))]
    return [kind, a, kids]


def gen_bii_tree(rng):
    def inl(depth):
        r = rng.random()
        if depth >= 3 or r < .35:
            return ['TextBox', {}, []]
        if r < .7:
            return ['InlineBox', {}, [inl(depth + 1) for _ in range(rng.choice([0, 1, 2, 3]))]]
        if r < .8:
            return ['InlineBlockBox', {}, []]
        a = {}
        if rng.random() < .25:
            a = {'flow': False, 'abs': rng.random() < .5}
        return ['BlockBox', a, []]
    return ['BlockBox', {}, [['LineBox', {}, [inl(0) for _ in range(rng.choice([1, 2, 3, 4]))]]]]


def stream_fixups(run, rng, thorough):
    for name, gen, fn, judge in (('fixup-tables', lambda r, d: ['BlockBox', {}, [gen_atb_tree(r, 1) for _ in range(r.choice([1, 2, 3]))]],
                                  'fix_atb', 'atb_judge'),
                                 ('fixup-inline-in-block', lambda r, d: gen_iib_tree(r, d, True), 'fix_iib', 'iib_judge'),
                                 ('fixup-block-in-inline', lambda r, d: gen_bii_tree(r), 'fix_bii', 'bii_judge')):
        cases = [dict(tree=c) for c in corpus(name)]
        while len(cases) < (4000 if thorough else 700):
            cases.append(dict(tree=gen(rng, 0)))
        outs = common.run_impl('impl_c08', fn, cases, chunksize=16)
        coq, kept = [], []
        for c, (st, o) in zip(cases, outs):
            if st != 'ok':
                run.fail('%s raised %s' % (fn, o and o.get('site')), {'stream': name, 'case': c, 'outcome': o},
                         signature='crash:%s' % (o and o.get('site'),))
                continue
            coq.append('(%s, %s)' % (box_term(c['tree']), tree_term(o)))
            kept.append((c, o))
        try:
            masks = common.eval_cases('c08' + judge, PRE_FIX, 'box * tree', coq, judge, per_file=max(60, len(coq) // 15 + 1))
            mism = [(c, o) for (c, o), m in zip(kept, masks) if m & 1]
            run.oblige('corr:%s(%s on synthetic boxes vs the model)' % (name, fn), not mism, 'first: %s' % mism[:1])
            for (c, o), m in zip(kept, masks):
                if m & 2:
                    run.fail('the output of %s violates its clause of spec_wf_tree' % fn, {'stream': name, 'case': c, 'impl': o},
                             signature='fixup-spec:' + name)
                    break
            run.count(name, len(kept), [json.dumps(c) for c, _ in kept], samples=[kept[0][0]])
            run.stream_info(name, rule='random box trees (depth <= 4) of real box objects: every parent class incl. stray table parts, '
                            'white-space-only text, out-of-flow and absolutely positioned boxes; the real function is called on them')
        except RuntimeError as exc:
            run.oblige('corr:%s' % name, False, str(exc))


# ================================================================== 3b. white space between table parts
# CSS 2.1 17.2.1 rules 1.3 / 1.4: an anonymous inline box holding only white space (space, tab, LF, CR, FF) between
# two internal table boxes / captions, or first / last in a tabular container next to one, generates no box --
# whatever the value of white-space (under pre, pre-wrap, pre-line, break-spaces the text still has its tabs and
# line feeds when the table fix-ups see it).

CSS_WS = ' \t\n\r\f'
NOT_WS = ['\xa0', '　']       # no-break space, ideographic space: not white space in CSS 2.1
SIG_UNI_SPACE = 'table-ws-unicode-space-dropped'
INTERNAL = ('TableRowGroupBox', 'TableRowBox', 'TableColumnGroupBox', 'TableColumnBox', 'TableCaptionBox', 'TableCellBox')
TABULAR = ('TableBox', 'InlineTableBox', 'TableRowGroupBox', 'TableRowBox')


def ws_strings():
    """every string of length 1 and 2 over {space, tab, LF, CR, FF}"""
    return [a for a in CSS_WS] + [a + b for a in CSS_WS for b in CSS_WS]


def is_css_ws(t):
    return all(c in CSS_WS for c in t)


def uniq_ws(i):
    """a white-space-only string that identifies the text box number i"""
    s = ''
    i += 5
    while i:
        s = CSS_WS[i % 5] + s
        i //= 5
    return s


def gen_atb_ws_tree(rng, counter):
    def text():
        counter[0] += 1
        if rng.random() < .65:
            return ['TextBox', {'text': uniq_ws(counter[0]), 'wsonly': True}, []]
        return ['TextBox', {'text': 'w%d' % counter[0]}, []]

    def node(depth, parent):
        kind = rng.choice(ATB_KINDS[:-3])
        if parent in TABULAR and rng.random() < .7:
            kind = rng.choice(['TableRowBox', 'TableCellBox', 'TableCellBox', 'TableRowGroupBox', 'TableCaptionBox', 'TableColumnBox'])
        a = {}
        if kind == 'TableRowGroupBox':
            a['grp'] = rng.choice([0, 0, 1, 2])
        if kind == 'TableCaptionBox':
            a['capbot'] = rng.random() < .4
        return [kind, a, kids(depth + 1, kind)]

    def kids(depth, parent):
        if depth >= 3:
            return [text()] if rng.random() < .5 else []
        out = []
        for _ in range(rng.choice([0, 1, 2, 3, 4, 5])):
            if rng.random() < .45 and not (out and out[-1][0] == 'TextBox'):
                out.append(text())
            else:
                out.append(node(depth, parent))
        return out
    return ['BlockBox', {}, kids(0, 'BlockBox')]


def atb_ws_expect(tree):
    """(texts that must be gone, texts that must be there) by CSS 2.1 17.2.1 rules 1.1-1.4 read on the input"""
    drop, keep = [], []

    def walk(t, in_col):
        kind, a, kids = t
        in_col = in_col or kind in ('TableColumnBox', 'TableColumnGroupBox')
        for i, k in enumerate(kids):
            if k[0] == 'TextBox':
                txt = k[1]['text']
                if in_col:
                    drop.append(txt)                     # rules 1.1 / 1.2
                    continue
                prev = kids[i - 1] if i else None
                nxt = kids[i + 1] if i + 1 < len(kids) else None
                pi = prev is not None and prev[0] in INTERNAL
                ni = nxt is not None and nxt[0] in INTERNAL
                if is_css_ws(txt):
                    if (pi and ni) or (kind in TABULAR and len(kids) >= 2 and ((prev is None and ni) or (nxt is None and pi))):
                        drop.append(txt)                 # rules 1.4 / 1.3
                else:
                    keep.append(txt)
            else:
                walk(k, in_col)
    walk(tree, False)
    return drop, keep


# ---- documents

def gen_table_doc(rng, gap):
    """a table (or stray table parts) made of div elements; gap(position kind) gives the text put between / around
    the table parts.  Returns a function html(with_gaps: bool)."""
    n = [0]

    def cell():
        n[0] += 1
        at = ''
        if rng.random() < .25:
            at += ' colspan=%d' % rng.choice([2, 3])
        if rng.random() < .25:
            at += ' rowspan=%d' % rng.choice([0, 2, 3])
        inner = 'c%d' % n[0] if rng.random() < .8 else 'c%d  d%d' % (n[0], n[0])
        return ('el', 'table-cell', at, [('txt', inner)])

    def row():
        return ('el', 'table-row', '', seq([cell() for _ in range(rng.choice([1, 2, 3]))], True))

    def group():
        return ('el', rng.choice(['table-row-group', 'table-row-group', 'table-header-group', 'table-footer-group']), '',
                seq([row() for _ in range(rng.choice([1, 2]))], True))

    def seq(items, tabular):
        out = []
        if tabular:
            out.append(('gap',))
        for i, it in enumerate(items):
            if i:
                out.append(('gap',))
            out.append(it)
        if tabular:
            out.append(('gap',))
        return out
    shape = rng.choice(['table', 'table', 'inline-table', 'stray-rows', 'stray-cells', 'stray-groups'])
    if shape in ('table', 'inline-table'):
        parts = []
        if rng.random() < .3:
            parts.append(('el', 'table-caption', '', [('txt', 'cap')]))
        if rng.random() < .3:
            parts.append(('el', 'table-column-group', '', seq([('el', 'table-column', '', [])], False)))
        parts += [group() if rng.random() < .6 else row() for _ in range(rng.choice([1, 2, 3]))]
        root = ('el', shape, '', seq(parts, True))
    elif shape == 'stray-rows':
        root = ('el', rng.choice(['block', 'inline']), '', seq([row() for _ in range(rng.choice([2, 3]))], False))
    elif shape == 'stray-groups':
        root = ('el', 'block', '', seq([group() for _ in range(2)], False))
    else:
        root = ('el', rng.choice(['block', 'inline', 'flex']), '', seq([cell() for _ in range(rng.choice([2, 3]))], False))

    gaps = {}

    def render(t, with_gaps, path):
        if t[0] == 'txt':
            return t[1]
        if t[0] == 'gap':
            if not with_gaps:
                return ''
            if path not in gaps:
                gaps[path] = gap()
            return gaps[path]
        return '<div style="display:%s"%s>%s</div>' % (t[1], t[2], ''.join(render(k, with_gaps, path + (i,)) for i, k in enumerate(t[3])))
    return lambda with_gaps: render(root, with_gaps, ()), shape


def html_text(t):
    return t.replace('\r', '&#13;')


def table_doc_html(ws, body):
    return ('<style>body{margin:0;font-family:weasyprint;font-size:10px;line-height:10px;white-space:%s}</style>%s' % (ws, body))


def stream_table_ws(run, rng, thorough):
    # ---- A. anonymous_table_boxes called on synthetic boxes carrying every kind of white-space text
    cases = [dict(tree=c) for c in corpus('table-ws-direct')]
    # every string of length <= 2 between two cells of a row, between two rows of a table, around the rows of a group
    for t in ws_strings():
        cases.append(dict(tree=['BlockBox', {}, [['TableRowBox', {}, [['TableCellBox', {}, []], ['TextBox', {'text': t, 'wsonly': True}, []],
                                                                      ['TableCellBox', {}, []]]]]]))
        cases.append(dict(tree=['BlockBox', {}, [['TableBox', {}, [['TextBox', {'text': t + ' ', 'wsonly': True}, []], ['TableRowBox', {}, []],
                                                                   ['TextBox', {'text': t, 'wsonly': True}, []], ['TableRowGroupBox', {}, []],
                                                                   ['TextBox', {'text': ' ' + t, 'wsonly': True}, []]]]]]))
    while len(cases) < (2500 if thorough else 700):
        cases.append(dict(tree=gen_atb_ws_tree(rng, [0])))
    outs = common.run_impl('impl_c08', 'fix_atb_ws', cases, chunksize=16)
    coq, kept, reported = [], [], False
    for c, (st, o) in zip(cases, outs):
        if st != 'ok':
            run.fail('anonymous_table_boxes raised %s' % (o and o.get('site'),), {'stream': 'table-ws-direct', 'case': c, 'outcome': o},
                     signature='crash:%s' % (o and o.get('site'),))
            continue
        drop, keep = atb_ws_expect(c['tree'])
        left = Counter(o['texts'])
        bad_drop = [t for t in drop if left[t]]
        bad_keep = [t for t in keep if left[t] != 1]
        if (bad_drop or bad_keep) and not reported:
            reported = True
            run.fail('anonymous table fix-ups: ' + ('white-space-only text %r between / around table parts generates a box'
                                                    % bad_drop[:2] if bad_drop else 'text %r is lost or duplicated' % bad_keep[:2]),
                     {'stream': 'table-ws-direct', 'case': c, 'texts_left': o['texts'], 'must_be_gone': bad_drop, 'must_be_there_once': bad_keep},
                     signature='table-ws-direct:' + ('kept' if bad_drop else 'lost'))
        coq.append('(%s, %s)' % (box_term(c['tree']), tree_term(o['tree'])))
        kept.append(c)
    try:
        masks = common.eval_cases('c08atbws', PRE_FIX, 'box * tree', coq, 'atb_judge', per_file=max(60, len(coq) // 15 + 1))
        mism = [c for c, m in zip(kept, masks) if m & 1]
        run.oblige('corr:table-ws-direct(anonymous_table_boxes vs the model, white space = space/tab/LF/CR/FF)', not mism, 'first: %s' % mism[:1])
        for c, m in zip(kept, masks):
            if m & 2:
                run.fail('the output of anonymous_table_boxes violates the table clause of spec_wf_tree', {'stream': 'table-ws-direct', 'case': c},
                         signature='fixup-spec:table-ws-direct')
                break
        run.count('table-ws-direct', len(kept), [json.dumps(c) for c in kept], samples=[kept[3]])
        run.stream_info('table-ws-direct', rule='real boxes; text boxes hold every string of length <= 2 over {space,tab,LF,CR,FF} (and unique '
                        'longer ones) or a word; judged: texts that rules 1.1-1.4 remove are gone, every other word is there once, shape = model')
    except RuntimeError as exc:
        run.oblige('corr:table-ws-direct', False, str(exc))
    # ---- B. full pipeline: a document with white space between its table parts builds the same box tree as without
    docs = []
    strings = ws_strings()
    for ws in WS:
        for t in strings:                                   # systematic: all gaps hold the same string
            mk, shape = gen_table_doc(rng, lambda t=t: html_text(t))
            docs.append((ws, shape, mk, t))
    while len(docs) < (2400 if thorough else 520):
        ws = rng.choice(WS)
        mk, shape = gen_table_doc(rng, lambda: html_text(''.join(rng.choice(CSS_WS) for _ in range(rng.choice([1, 1, 2, 3, 5])))))
        docs.append((ws, shape, mk, None))
    uni = []
    for ws in WS:
        for ch in NOT_WS:
            mk, shape = gen_table_doc(random.Random(7), lambda ch=ch: rng.choice(['', ' ']) + ch)
            uni.append((ws, shape, mk, ch))
    cases, ref = [], []
    for i, (ws, shape, mk, t) in enumerate(docs + uni):
        render = (i % 6 == 0)
        cases.append(dict(html=table_doc_html(ws, mk(True)), render=render))
        cases.append(dict(html=table_doc_html(ws, mk(False)), render=render))
    outs = run_impl_safe('table_ws_doc', cases, limit=8, chunksize=4)
    seen, judged, uni_dropped, uni_kept = set(), 0, 0, 0
    for i, (ws, shape, mk, t) in enumerate(docs + uni):
        (s1, o1), (s2, o2) = outs[2 * i], outs[2 * i + 1]
        html = cases[2 * i]['html']
        if s1 == 'timeout' or s2 == 'timeout':
            continue
        if s1 != 'ok' or s2 != 'ok':
            o = o1 if s1 != 'ok' else o2
            run.fail('building / laying out a table document raised %s' % (o and o.get('site'),), {'stream': 'table-ws-doc', 'html': html, 'exc': o},
                     signature='crash:%s' % (o and o.get('site'),))
            continue
        same = (o1['tree'] == o2['tree'] and o1['tables'] == o2['tables'] and o1['texts'] == o2['texts'])
        if i >= len(docs):
            # no-break / ideographic space is not white space: it must generate a box (the text must be there)
            if any(t in x for x in o1['texts']):
                uni_kept += 1
            else:
                uni_dropped += 1
                if uni_dropped == 1:
                    run.fail('U+%04X between table parts is dropped as if it were white space (CSS 2.1: white space is space, tab, '
                             'LF, CR, FF only; this text must generate a box)' % ord(t),
                             {'stream': 'table-ws-doc', 'html': html, 'html_without': cases[2 * i + 1]['html'], 'texts': o1['texts'],
                              'must_contain': t}, signature=SIG_UNI_SPACE)
            continue
        judged += 1
        seen.add((ws, shape, t))
        if not same and 'table-ws-doc' not in seen:
            seen.add('table-ws-doc')
            what = ('rows x cells / grid_x / spans %s instead of %s' % ([[[c[2:] for c in r] for r in g] for tb in o1['tables'] for g in tb['groups']],
                                                                        [[[c[2:] for c in r] for r in g] for tb in o2['tables'] for g in tb['groups']])
                    if o1['tables'] != o2['tables'] else 'text boxes %r instead of %r' % (o1['texts'], o2['texts'])
                    if o1['texts'] != o2['texts'] else 'another box tree')
            run.fail('white-space-only text between / around table parts (white-space: %s) generates boxes: %s' % (ws, what),
                     {'stream': 'table-ws-doc', 'html': html, 'html_without': cases[2 * i + 1]['html'], 'white_space': ws,
                      'tables': o1['tables'], 'tables_without': o2['tables'], 'texts': o1['texts'], 'texts_without': o2['texts']},
                     signature='table-ws-doc:differs')
        if 'post' in o1 and 'post' in o2 and o1['post'] != o2['post'] and 'table-ws-post' not in seen:
            seen.add('table-ws-post')
            run.fail('after layout, white-space-only text between table parts (white-space: %s) changes the table: %s instead of %s'
                     % (ws, o1['post'], o2['post']), {'stream': 'table-ws-doc', 'html': html, 'html_without': cases[2 * i + 1]['html'],
                                                     'white_space': ws, 'stage': 'layout'}, signature='table-ws-doc:differs-after-layout')
    run.count('table-ws-doc', judged, [k for k in seen if isinstance(k, tuple)], samples=[cases[0]['html'][:500]])
    run.stream_info('table-ws-doc', rule='tables, inline tables, stray rows / row groups / cells (in block, inline, flex parents) made of div '
                    'elements, colspan / rowspan; every string of length <= 2 over {space,tab,LF,CR,FF} (then random ones) put in every gap '
                    'between and around the table parts, under each of the 6 white-space values; judged: same box tree, same rows x cells / '
                    'grid_x / spans, same text boxes as the document without that text (every 6th also after layout)',
                    unicode_space_docs=len(uni), unicode_space_dropped=uni_dropped, unicode_space_kept=uni_kept)


# ================================================================== 4. display / float / position -> box class

DISPLAYS = {
    'none': 'DNone', 'block': 'DPair OBlock Flow false', 'inline': 'DPair OInline Flow false',
    'inline-block': 'DPair OInline FlowRoot false', 'list-item': 'DPair OBlock Flow true',
    'inline list-item': 'DPair OInline Flow true', 'flow-root': 'DPair OBlock FlowRoot false',
    'flow-root list-item': 'DPair OBlock FlowRoot true', 'inline flow-root list-item': 'DPair OInline FlowRoot true',
    'table': 'DPair OBlock ITable false', 'inline-table': 'DPair OInline ITable false',
    'flex': 'DPair OBlock Flex false', 'inline-flex': 'DPair OInline Flex false',
    'grid': 'DPair OBlock Grid false', 'inline-grid': 'DPair OInline Grid false',
    'inline flex': 'DPair OInline Flex false', 'block grid': 'DPair OBlock Grid false',
    'table-row-group': 'DPart RowGroup', 'table-header-group': 'DPart HeaderGroup', 'table-footer-group': 'DPart FooterGroup',
    'table-row': 'DPart Row', 'table-cell': 'DPart Cell', 'table-column': 'DPart Col', 'table-column-group': 'DPart ColGroup',
    'table-caption': 'DPart Caption',
}
POS = {'static': 'PStatic', 'relative': 'PRelative', 'absolute': 'PAbsolute', 'fixed': 'PFixed'}
FLOATS = {'none': 'FNone', 'left': 'FLeft', 'right': 'FRight'}
CLS_CODE = {None: 0, 'BlockBox': 1, 'InlineBox': 2, 'InlineBlockBox': 3, 'TableBox': 4, 'InlineTableBox': 5, 'FlexBox': 6,
            'InlineFlexBox': 7, 'GridBox': 8, 'InlineGridBox': 9, 'TableRowBox': 10, 'TableRowGroupBox': 11,
            'TableColumnBox': 12, 'TableColumnGroupBox': 13, 'TableCellBox': 14, 'TableCaptionBox': 15}


def disp_term(t):
    """computed display tuple of the implementation -> Coq term"""
    t = tuple(t)
    if t == ('none',):
        return 'DNone'
    if len(t) == 1:
        return {'table-row-group': 'DPart RowGroup', 'table-header-group': 'DPart HeaderGroup',
                'table-footer-group': 'DPart FooterGroup', 'table-row': 'DPart Row', 'table-cell': 'DPart Cell',
                'table-column': 'DPart Col', 'table-column-group': 'DPart ColGroup', 'table-caption': 'DPart Caption'}[t[0]]
    o = {'block': 'OBlock', 'inline': 'OInline'}[t[0]]
    i = {'flow': 'Flow', 'flow-root': 'FlowRoot', 'table': 'ITable', 'flex': 'Flex', 'grid': 'Grid'}[t[1]]
    return 'DPair %s %s %s' % (o, i, bl('list-item' in t))


def stream_display(run, rng, thorough):
    cases = [dict(display=d, float=f, position=p, root=r)
             for d in DISPLAYS for f in FLOATS for p in POS for r in (False, True)]
    outs = common.run_impl('impl_c08', 'display_box', cases, chunksize=16)
    coq, kept = [], []
    for c, (st, o) in zip(cases, outs):
        if st != 'ok':
            run.fail('computing display / building the box raised', {'stream': 'display', 'case': c, 'outcome': o},
                     signature='crash:%s' % (o and o.get('site'),))
            continue
        coq.append('(%s,%s,%s,%s,%s,%s,%d)' % (POS[c['position']], FLOATS[c['float']], bl(c['root']), DISPLAYS[c['display']],
                                                disp_term(o['display']), FLOATS[o['float']], CLS_CODE[o['cls']]))
        kept.append((c, o))
    try:
        masks = common.eval_cases('c08disp', PRE_DISP, 'posv * floatv * bool * disp * disp * floatv * nat', coq, 'display_judge',
                                  per_file=100)
        mism = [(c, o) for (c, o), m in zip(kept, masks) if m & 1]
        run.oblige('corr:display(computed display/float and box class, exhaustive)', not mism, 'first: %s' % mism[:3])
        bad = [(c, o) for (c, o), m in zip(kept, masks) if m & 2]
        if bad:
            run.fail('computed display / float or the class of the generated box differs from the table of CSS 2.1 9.7 / CSS Display 3 '
                     '2.7 (%d combinations): display:%s float:%s position:%s%s computes to display %s, float %s and generates %s'
                     % (len(bad), bad[0][0]['display'], bad[0][0]['float'], bad[0][0]['position'],
                        ' on the root element' if bad[0][0]['root'] else '', tuple(bad[0][1]['display']), bad[0][1]['float'],
                        bad[0][1]['cls']),
                     {'stream': 'display', 'case': bad[0][0], 'impl': bad[0][1], 'count': len(bad)}, signature='display-table')
        run.count('display', len(kept), [json.dumps(c, sort_keys=True) for c, _ in kept], samples=[kept[5][0]])
        run.stream_info('display', rule='exhaustive: %d display values x float {none,left,right} x position {static,relative,'
                        'absolute,fixed} x {root element, child of body}' % len(DISPLAYS), deviating_from_css_table=len(bad))
    except RuntimeError as exc:
        run.oblige('corr:display', False, str(exc))


# ================================================================== 5. documents: generator

ALL_DISPLAYS = ['block', 'inline', 'inline-block', 'list-item', 'flow-root', 'table', 'inline-table', 'table-row-group',
                'table-header-group', 'table-footer-group', 'table-row', 'table-cell', 'table-column', 'table-column-group',
                'table-caption', 'flex', 'inline-flex', 'grid', 'inline-grid', 'none']
TABLE_PARTS = ('table-row-group', 'table-header-group', 'table-footer-group', 'table-row', 'table-cell', 'table-column',
               'table-column-group', 'table-caption')
REORDERING = ('table-header-group', 'table-footer-group', 'table-caption')


def enc(i):
    s = ''
    i += 8
    while i:
        s = 'abcdefgh'[i % 8] + s
        i //= 8
    return s


class Gen:
    """generator of a document tree; profile controls which displays may appear (shaped around crash sites)"""
    def __init__(self, rng, profile):
        self.rng, self.profile, self.n, self.w = rng, profile, 0, 0
        self.rules = []

    def word(self):
        self.w += 1
        return enc(self.w)

    def text(self, short=False):
        rng = self.rng
        seps = [' ', ' ', '  ', '\t', '\n', ' \n ', '\n\n', '   ']
        s = rng.choice(['', '', ' ', '\n', '  ', '\t']) if not short else ''
        for k in range(rng.choice([0, 1, 1, 2, 3]) if not short else 1):
            if k:
                s += rng.choice(seps)
            s += self.word()
        s += rng.choice(['', '', ' ', '\n', '  '])
        return s

    def display(self, parent_display, depth):
        rng, p = self.rng, self.profile
        r = rng.random()
        if r < .22:
            d = 'block'
        elif r < .42:
            d = 'inline'
        else:
            d = rng.choice(p['displays'])
        # table parts are much more likely under a table part / table
        if parent_display in ('table', 'inline-table') + TABLE_PARTS and rng.random() < .6:
            d = rng.choice([x for x in TABLE_PARTS if x in p['displays']] or [d])
        if parent_display in ('flex', 'inline-flex', 'grid', 'inline-grid'):
            if d in ('table-column', 'table-column-group'):
                d = 'block'      # flex/grid items with an internal table display are not blockified (see report): avoided
        return d

    def element(self, depth, parent_display):
        rng, p = self.rng, self.profile
        self.n += 1
        e = dict(id='e%d' % self.n, display=self.display(parent_display, depth), kids=[], float='none', position='static',
                 ws=None, tt=None, before=None, after=None, colspan=None, rowspan=None)
        if rng.random() < p.get('float', .06) and e['display'] != 'none':
            e['float'] = rng.choice(['left', 'right'])
        elif rng.random() < p.get('abs', .04) and e['display'] != 'none':
            e['position'] = rng.choice(['absolute', 'relative', 'fixed'] if p.get('fixed') else ['absolute', 'relative'])
        if rng.random() < .3:
            e['ws'] = rng.choice(WS)
        if rng.random() < .15:
            e['tt'] = rng.choice(['uppercase', 'lowercase', 'capitalize', 'none'])
        if e['display'] == 'table-cell' or rng.random() < .03:
            if rng.random() < .4:
                e['colspan'] = rng.choice([1, 2, 2, 3, 4])
            if rng.random() < .4:
                e['rowspan'] = rng.choice([0, 1, 2, 2, 3, 4])
        for which in ('before', 'after'):
            if rng.random() < p.get('pseudo', .12):
                disp = rng.choice(p.get('pseudo_displays', ['inline']))
                e[which] = dict(display=disp, content=rng.choice(['', ' ']) + self.word() + rng.choice([' ', '  ', '']) +
                                rng.choice(['', self.word()]) + rng.choice(['', ' ']))
        nk = 0 if depth >= p.get('depth', 4) else rng.choice([0, 1, 2, 2, 3, 4])
        if rng.random() < .75:
            e['kids'].append(self.text())
        for _ in range(nk):
            e['kids'].append(self.element(depth + 1, e['display']))
            if rng.random() < .6:
                e['kids'].append(self.text())
        return e

    def doc(self):
        rng = self.rng
        self.n = self.w = 0
        body = [self.element(1, 'block') for _ in range(rng.choice([1, 2, 3]))]
        if rng.random() < .5:
            body.insert(rng.randrange(len(body) + 1), self.text())
        return body


def esc(s):
    return s.replace('&', '&amp;').replace('<', '&lt;')


def css_str(s):
    return '"%s"' % ''.join(c if c.isalnum() or c == ' ' else '\\%x ' % ord(c) for c in s)


def to_html(body):
    rules = []

    def el(e):
        if isinstance(e, str):
            return esc(e)
        st = ['display:%s' % e['display']]
        if e['float'] != 'none':
            st.append('float:%s' % e['float'])
        if e['position'] != 'static':
            st.append('position:%s' % e['position'])
        if e['ws']:
            st.append('white-space:%s' % e['ws'])
        if e['tt']:
            st.append('text-transform:%s' % e['tt'])
        at = ''
        if e['colspan'] is not None:
            at += ' colspan=%d' % e['colspan']
        if e['rowspan'] is not None:
            at += ' rowspan=%d' % e['rowspan']
        for which in ('before', 'after'):
            if e[which]:
                rules.append('#%s::%s{content:%s;display:%s}' % (e['id'], which, css_str(e[which]['content']), e[which]['display']))
        return '<div id=%s%s style="%s">%s</div>' % (e['id'], at, ';'.join(st), ''.join(el(k) for k in e['kids']))
    inner = ''.join(el(e) for e in body)
    return ('<style>@page{size:1000px 100000px;margin:0}body{margin:0;font-family:weasyprint;font-size:10px;line-height:10px}'
            '%s</style>%s' % (''.join(rules), inner))


# ---- reference, from the generated tree only (never from the implementation)

def computed_display(e):
    """CSS 2.1 9.7 / CSS Display 3 2.7"""
    d = e['display']
    if d == 'none':
        return d
    if e['position'] in ('absolute', 'fixed') or e['float'] != 'none':
        if d in TABLE_PARTS or d in ('inline', 'inline-block'):
            return 'block'
        if d.startswith('inline-'):
            return d[7:]
    return d


def ref_words(body):
    """{element id (or id::before / ::after, or 'body'): words of the text directly inside it, in order} -- what must
    reach the page.  Text nodes separated only by elements that generate no box are one run of text."""
    out = {}

    def seq(key, kids):
        buf = ''
        for k in kids:
            if isinstance(k, str):
                buf += k
                continue
            d = computed_display(k)
            if d == 'none':
                continue
            out.setdefault(key, []).extend(buf.split())
            buf = ''
            el(k, d)
        out.setdefault(key, []).extend(buf.split())

    def el(e, d):
        if d in ('table-column', 'table-column-group'):
            return
        for which in ('before', 'after'):
            if e[which] and e[which]['display'] != 'none' and e[which]['content'].split():
                out[e['id'] + '::' + which] = e[which]['content'].split()
        seq(e['id'], e['kids'])
    seq('body', body)
    return {k: v for k, v in out.items() if v}


def lost_before_float(body, missing):
    """decidable precondition of the listed layout finding SIG_LOST_FLOAT: every missing word is the word that
    immediately precedes a float in the inline content (inline elements being transparent, nothing but white space and
    empty inline elements in between), or lies inside such a float"""
    ok = set()

    def inside(e):
        if isinstance(e, str):
            ok.update(e.split())
            return
        for w in ('before', 'after'):
            if e[w]:
                ok.update(e[w]['content'].split())
        for k in e['kids']:
            inside(k)

    def flat(kids, out):
        for k in kids:
            if isinstance(k, str):
                out.extend(('w', w) for w in k.split())
            elif k['display'] == 'none':
                continue
            elif k['float'] != 'none':
                out.append(('float', k))
                flat(k['kids'], [])
            elif k['display'] == 'inline' and k['position'] in ('static', 'relative'):
                if k['before']:
                    out.extend(('w', w) for w in k['before']['content'].split())
                flat(k['kids'], out)
                if k['after']:
                    out.extend(('w', w) for w in k['after']['content'].split())
            else:
                out.append(('other', k))
                sub = []
                flat(k['kids'], sub)
                scan(sub)

    def scan(seq):
        for i, t in enumerate(seq):
            if t[0] == 'float':
                if i and seq[i - 1][0] == 'w':
                    ok.add(seq[i - 1][1])
                    inside(t[1])
                sub = []
                flat(t[1]['kids'], sub)
                scan(sub)
    top = []
    flat(body, top)
    scan(top)
    return bool(missing) and all(w in ok for w in missing)


def words_diff(ref, got):
    """None or (missing, extra, keys whose words differ)"""
    got = {k: [w.lower() for w in v] for k, v in got.items()}
    if got == ref:
        return None
    a = Counter(w for v in ref.values() for w in v)
    b = Counter(w for v in got.values() for w in v)
    return (sorted((a - b).elements()), sorted((b - a).elements()), sorted(k for k in set(ref) | set(got) if ref.get(k) != got.get(k)))


# ---- reference white-space processor of an inline formatting context (CSS Text 3, 4.1.1 + 4.1.2 at the line ends)

def phase1(items):
    """items: list of ('t', original text, white-space) | ('a',).  Returns list of (char, collapsible) with '￼'
    for atomic inlines.  Written from the specification: works on the whole inline formatting context."""
    chars = []            # [char, ws]
    for it in items:
        if it[0] == 'a':
            chars.append(['￼', None])
        else:
            t = it[1].replace('\r\n', '\n').replace('\r', '\n')
            chars.extend([c, it[2]] for c in t)
    n = len(chars)
    coll = [ws in COLLAPSING for _, ws in chars]
    # 1. spaces and tabs around a (collapsible-value) segment break are removed
    drop = [False] * n
    for i, (c, ws) in enumerate(chars):
        if c == '\n' and coll[i]:
            j = i - 1
            while j >= 0 and chars[j][0] in ' \t' and coll[j]:
                drop[j] = True
                j -= 1
            j = i + 1
            while j < n and chars[j][0] in ' \t' and coll[j]:
                drop[j] = True
                j += 1
    out = []
    for i, (c, ws) in enumerate(chars):
        if drop[i]:
            continue
        if coll[i]:
            if c == '\n' and ws in ('normal', 'nowrap'):
                c = ' '                      # 2. collapsible segment break -> space
            elif c == '\t':
                c = ' '                      # 3. tab -> space
            if c == ' ' and out and out[-1] == [' ', True]:
                continue                     # 4. a collapsible space after a collapsible space is removed
            out.append([c, c == ' '])
        else:
            out.append([c, False])
    return out


def phase2(chars):
    """remove collapsible spaces at the start and end of every line (lines end at preserved line feeds)"""
    lines, cur = [], []
    for c in chars:
        if c[0] == '\n':
            lines.append(cur)
            cur = []
        else:
            cur.append(c)
    lines.append(cur)
    res = []
    for ln in lines:
        while ln and ln[0][1]:
            ln = ln[1:]
        while ln and ln[-1][1]:
            ln = ln[:-1]
        res.append(''.join(c for c, _ in ln))
    return '\n'.join(res)


def py_tt(tt, s):
    if tt == 'uppercase':
        return s.upper()
    if tt == 'lowercase':
        return s.lower()
    if tt == 'capitalize':
        out, found = '', False
        for ch in s:
            if not found and ch.isalnum():
                found, ch = True, ch.upper()
            elif ch == ' ':
                found = False
            out += ch
        return out
    return s


def judge_ifc(ifc):
    """returns None or (kind, expected, actual)"""
    items = ifc['items']
    # (U+200B alone: the box element_to_box appends to an empty list item after the processing)
    if any(it[0] == 't' and it[1] is None and not it[5].endswith('::marker') and it[4] != '\u200b' for it in items):
        return ('unprocessed', None, [it[4] for it in items if it[0] == 't'])
    ref_items, act = [], []
    for it in items:
        if it[0] == 'a':
            ref_items.append(('a', it[-1]))
            act.append(['￼', False])
        else:
            orig = it[1] if it[1] is not None else it[4]
            ref_items.append(('t', orig, it[2], it[-1]))
            act.extend([c, c == ' ' and it[2] in COLLAPSING] for c in it[4])
    e, a = phase2(phase1(ref_items)), phase2(act)
    tts = set(it[3] for it in items if it[0] == 't')
    same = (e.lower() == a.lower()) if tts - {'none'} else (e == a)
    if not same:
        return ('text', e, a)
    # text-transform, per text box as the implementation applies it (ASCII words)
    for it in items:
        if it[0] == 't' and it[3] in ('uppercase', 'lowercase') and it[4] != py_tt(it[3], it[4]):
            return ('transform', it[3], it[4])
        if it[0] == 't' and it[3] == 'capitalize' and it[1] is not None and it[1] == it[1].lower() \
                and it[4] != py_tt('capitalize', it[4].lower()):
            return ('transform', it[3], it[4])
    return None


def skel(s):
    return ' '.join(s.replace('￼', ' ').split())


KIND_TERM = {'BlockBox': 'KBlock', 'InlineBox': 'KInline', 'InlineBlockBox': 'KInlineBlock', 'TableBox': 'KTable',
             'InlineTableBox': 'KInlineTable', 'FlexBox': 'KFlex', 'InlineFlexBox': 'KInlineFlex', 'GridBox': 'KGrid',
             'InlineGridBox': 'KInlineGrid', 'TableRowBox': 'KRow', 'TableRowGroupBox': 'KRowGroup', 'TableColumnBox': 'KCol',
             'TableColumnGroupBox': 'KColGroup', 'TableCellBox': 'KCell', 'TableCaptionBox': 'KCaption', 'LineBox': 'KLine',
             'TextBox': 'KText', 'BlockReplacedBox': 'KBlockRepl', 'InlineReplacedBox': 'KInlineRepl', 'PageBox': 'KPage',
             'MarginBox': 'KMargin'}


def tree_term(t):
    k, flow, wrapper, empty, kids = t
    return '(N %s %s %s %s [%s])' % (KIND_TERM.get(k, 'KOther'), bl(flow), bl(wrapper), bl(empty), ';'.join(tree_term(c) for c in kids))


def tree_size(t):
    return 1 + sum(tree_size(c) for c in t[4])


WF_CLAUSES = {1: '_sanity_checks (PROPER_CHILDREN)', 2: 'block container: only block-level boxes or one inline formatting '
              'context / inline content only inline-level', 4: 'table structure wrapper > table > row group > row > cell',
              8: 'text box empty or with children'}

PROFILES = {
    # everything, judged right after build_formatting_structure only (layout is not run)
    'build-any': dict(displays=ALL_DISPLAYS, depth=4, float=.08, abs=.05, fixed=True, pseudo=.12,
                      pseudo_displays=['inline', 'inline', 'block', 'inline-block', 'table-cell', 'none', 'list-item', 'flex'], render=False),
    # laid out: shaped around the crash sites of the unchanged tree (see SHAPING below)
    'render': dict(displays=[d for d in ALL_DISPLAYS], depth=4, float=.06, abs=.04, fixed=False, pseudo=.12,
                   pseudo_displays=['inline', 'inline', 'block', 'inline-block', 'table-cell', 'none', 'list-item', 'flex'], render=True),
}


def doc_features(body):
    f = Counter()

    def el(e, depth, parent):
        if isinstance(e, str):
            if '\n' in e:
                f['text-newline'] += 1
            if '\t' in e:
                f['text-tab'] += 1
            return
        f['display:' + e['display']] += 1
        f['depth'] = max(f['depth'], depth)
        if e['float'] != 'none':
            f['float'] += 1
        if e['position'] != 'static':
            f['position:' + e['position']] += 1
        if e['ws']:
            f['ws:' + e['ws']] += 1
        if e['tt']:
            f['tt:' + e['tt']] += 1
        if e['rowspan'] == 0:
            f['rowspan0'] += 1
        if e['colspan'] and e['colspan'] > 1:
            f['colspan>1'] += 1
        if e['before'] or e['after']:
            f['pseudo'] += 1
        if parent == 'inline' and e['display'] in ('block', 'list-item', 'flow-root', 'table', 'flex', 'grid'):
            f['block-in-inline'] += 1
        if e['display'] in TABLE_PARTS and parent not in ('table', 'inline-table') + TABLE_PARTS:
            f['stray-table-part'] += 1
        for k in e['kids']:
            el(k, depth + 1, e['display'])
    for e in body:
        el(e, 1, 'block')
    return f


def run_impl_safe(fn, cases, **kw):
    """common.run_impl, tolerant to the watchdog firing while a worker is already leaving _worker_call (the
    CaseTimeout then escapes pool.map): the batch is split and run again; a single case that does it counts as a
    time-out"""
    try:
        return common.run_impl('impl_c08', fn, cases, **kw)
    except Exception:       # noqa
        if len(cases) <= 1:
            return [('timeout', {}) for _ in cases]
        h = len(cases) // 2
        return run_impl_safe(fn, cases[:h], **kw) + run_impl_safe(fn, cases[h:], **kw)


def run_docs(run, stream, docs, render):
    """docs: list of (body tree, html).  Judges every document; returns statistics."""
    cases = [dict(html=h, render=render) for _, h in docs]
    # slow documents are not this property's business (non-termination / speed: C02): CPU limit, counted, skipped
    outs = run_impl_safe('build_and_render', cases, limit=4, chunksize=1)
    wf_cases, wf_ref = [], []
    cg_cases, cg_ref = [], []
    tab_recs = []
    stats = Counter()
    crashes = {}
    for di, ((body, html), (st, o)) in enumerate(zip(docs, outs)):
        if st == 'timeout' or (st == 'exc' and o.get('type') == 'CaseTimeout'):
            stats['timeout(not judged)'] += 1          # termination / speed is not this property
            continue
        if st == 'exc':
            site = tuple(o['site']) if o.get('site') else None
            crashes.setdefault(('build', site), (html, o))
            continue
        pre = o['pre']
        wf_cases.append('(false, %s)' % tree_term(pre['tree']))
        wf_ref.append((di, 'pre'))
        stats['boxes'] += tree_size(pre['tree'])
        for cg in pre['colgroups']:
            cg_cases.append('[%s]' % ';'.join(tree_term(g) for g in cg))
            cg_ref.append(di)
        for t in pre['tables']:
            tab_recs.append((t, di))
        # ---- text, right after build_formatting_structure
        words = ref_words(body)
        wd = words_diff(words, pre['words'])
        if wd:
            run.fail('text of the document does not reach the box tree unchanged: missing %s, extra %s, elements %s'
                     % (wd[0][:4], wd[1][:4], wd[2][:4]),
                     {'stream': stream, 'html': html, 'stage': 'build', 'missing': wd[0], 'extra': wd[1], 'elements': wd[2],
                      'expected': words}, signature='text-lost:build')
        for ifc in pre['ifcs']:
            stats['ifcs'] += 1
            bad = judge_ifc(ifc)
            if bad is None:
                continue
            kind, e, a = bad
            if kind == 'unprocessed':
                run.fail('a text box never went through process_whitespace / process_text_transform: %r' % (a,),
                         {'stream': stream, 'html': html, 'ifc': ifc}, signature='text:unprocessed')
            else:
                run.fail('text of an inline formatting context is not the white-space-processed text of its source: '
                         'expected %r, box tree has %r (%s)' % (e, a, kind),
                         {'stream': stream, 'html': html, 'ifc': ifc, 'expected': e, 'got': a}, signature='text:ifc-%s' % kind)
        # ---- after layout
        if 'post_crash' in o and o['post_crash'].get('type') == 'CaseTimeout':
            stats['timeout(not judged)'] += 1
            continue
        if 'post_crash' in o:
            c = o['post_crash']
            site = tuple(c['site']) if c.get('site') else None
            crashes.setdefault(('render', site), (html, c))
            stats['render-crash'] += 1
            continue
        if 'post' in o:
            post = o['post']
            stats['rendered'] += 1
            for t in post['trees']:
                wf_cases.append('(true, %s)' % tree_term(t))
                wf_ref.append((di, 'post'))
                stats['boxes'] += tree_size(t)
            wd = words_diff(words, post['words'])
            if wd and not wd[1] and lost_before_float(body, wd[0]):
                stats['known:' + SIG_LOST_FLOAT] += 1
                run.fail('layout loses the end of a word (and the float) when a float sits inside the word and the line '
                         'is broken before it: missing %s' % (wd[0][:4],),
                         {'stream': stream, 'html': html, 'stage': 'layout', 'missing': wd[0]}, signature=SIG_LOST_FLOAT)
            elif wd:
                run.fail('rendered text differs from the text of the document: missing %s, extra %s, elements %s'
                         % (wd[0][:4], wd[1][:4], wd[2][:4]),
                         {'stream': stream, 'html': html, 'stage': 'layout', 'missing': wd[0], 'extra': wd[1], 'elements': wd[2],
                          'expected': words}, signature='text-lost:layout')
    # ---- well-formedness, in Coq
    try:
        masks = common.eval_cases('c08wf' + stream.replace('-', ''), PRE_TREE, 'bool * tree', wf_cases, 'wf_judge',
                                  per_file=max(20, len(wf_cases) // 16 + 1))
        for (di, stage), m in zip(wf_ref, masks):
            if m:
                clauses = [v for b, v in WF_CLAUSES.items() if m & b]
                run.fail('box tree %s is not well formed: %s' % ('after layout' if stage == 'post' else 'after build_formatting_structure',
                                                                  '; '.join(clauses)),
                         {'stream': stream, 'html': docs[di][1], 'stage': stage, 'mask': m}, signature='wf:%s:%d' % (stage, m))
        if cg_cases:
            cm = common.eval_cases('c08cg' + stream.replace('-', ''), PRE_TREE, 'list tree', cg_cases, 'colgroups_judge',
                                   per_file=max(50, len(cg_cases) // 8 + 1))
            for di, m in zip(cg_ref, cm):
                if m:
                    run.fail('column groups of a table are not column group > column', {'stream': stream, 'html': docs[di][1]},
                             signature='wf:colgroups')
        run.oblige('monitor:%s:spec_wf_tree evaluated' % stream, True)
    except RuntimeError as exc:
        run.oblige('monitor:%s:spec_wf_tree evaluated' % stream, False, str(exc))
    # ---- tables met in the documents: slots against the model
    if tab_recs:
        try:
            masks = common.eval_cases('c08dt' + stream.replace('-', ''), PRE_TAB, TAB_TYPE, [coq_table_case(t) for t, _ in tab_recs],
                                      'table_judge', per_file=max(100, len(tab_recs) // 12 + 1))
            mism = [(docs[di][1], t) for (t, di), m in zip(tab_recs, masks) if m & 1]
            run.oblige('corr:%s:tables(grid loop vs do_table on the tables of random documents)' % stream, not mism, 'first: %s' % mism[:1])
            for (t, di), m in zip(tab_recs, masks):
                if m & 2:
                    run.fail('table slot assignment violates a proved clause', {'stream': stream, 'html': docs[di][1], 'record': t},
                             signature='table-slots-spec')
                    break
            stats['tables'] += len(tab_recs)
            stats['tables-outside-side-condition'] += sum(1 for m in masks if m & 4)
            stats['tables-overlapping(known finding, not reported from this stream)'] += sum(1 for m in masks if m & 8)
        except RuntimeError as exc:
            run.oblige('corr:%s:tables' % stream, False, str(exc))
    return stats, crashes


# crash sites of the unchanged tree that the registered generator is shaped around (not re-reported):
KNOWN_CRASH_SITES = {
    ('TypeError', 'layout/preferred.py', 'min_content_width'),
    ('AssertionError', 'layout/inline.py', 'skip_first_whitespace'),
}


PROBE_GEN_BLOCK = ('<style>body{margin:0}#p::before{content:"a   b  ";display:block;text-transform:uppercase}</style>'
                   '<div id=p>c</div>')
PROBE_FLEX_TABLE = '<div style="display:flex"><div style="display:inline-table">a</div></div>'


def probes(run):
    """regression probes of two repaired defects (F152, F154)"""
    outs = common.run_impl('impl_c08', 'build_and_render', [dict(html=PROBE_GEN_BLOCK, render=False),
                                                             dict(html=PROBE_FLEX_TABLE, render=False)])
    (st, o) = outs[0]
    if st == 'ok':
        bad = [judge_ifc(i) for i in o['pre']['ifcs']]
        if any(bad):
            run.fail('text of a ::before box with display:block is not white-space processed / text-transformed: %s'
                     % ([b for b in bad if b][0],), {'stream': 'probe', 'html': PROBE_GEN_BLOCK}, signature=SIG_GEN_BLOCK)
    else:
        run.oblige('probe:generated-content', False, str(o))
    (st, o) = outs[1]
    if st == 'ok':
        m = common.eval_cases('c08probe', PRE_TREE, 'bool * tree', ['(false, %s)' % tree_term(o['pre']['tree'])], 'wf_judge')[0]
        if m & 4:
            run.fail('an inline-table that is a flex/grid item loses its table wrapper (anonymous block instead of '
                     'wrapper > table); layout then raises TypeError in preferred.min_content_width',
                     {'stream': 'probe', 'html': PROBE_FLEX_TABLE, 'mask': m}, signature=SIG_FLEX_TABLE)
    else:
        run.oblige('probe:flex-inline-table', False, str(o))


def stream_documents(run, rng, thorough):
    probes(run)
    feats = Counter()
    for stream, n in (('doc-build', 2500 if thorough else 320), ('doc-render', 4000 if thorough else 380)):
        prof = PROFILES['build-any' if stream == 'doc-build' else 'render']
        g = Gen(rng, prof)
        docs = [(c['body'], to_html(c['body'])) for c in corpus(stream)]
        while len(docs) < n:
            body = g.doc()
            if stream == 'doc-render' and not render_safe(body):
                feats['reshaped'] += 1
                body = make_render_safe(body)
            docs.append((body, to_html(body)))
        for body, _ in docs:
            feats.update(doc_features(body))
        stats, crashes = run_docs(run, stream, docs, prof['render'])
        for (stage, site), (html, info) in crashes.items():
            run.fail('%s raised %s at %s' % (stage, info.get('type'), site), {'stream': stream, 'html': html, 'exc': info},
                     signature='crash:%s' % (site,))
        run.count(stream, len(docs), [h for _, h in docs], samples=[docs[0][1][:700]])
        run.stream_info(stream, rule=('random DOM trees depth <= 5: every element takes any display value in any nesting, float / '
                                      'position, white-space, text-transform, colspan/rowspan (0..4), ::before/::after with content; '
                                      'text with spaces, tabs, newlines and unique words; page 1000x100000px. ' +
                                      ('Judged right after build_formatting_structure.' if stream == 'doc-build' else
                                       'Judged after build_formatting_structure and after layout; shaped around known crash sites.')),
                        **{k: v for k, v in stats.items()})
    run.stream_info('doc-render', features={k: v for k, v in sorted(feats.items())})


# ---- shaping of the rendered stream around crash sites of the unchanged tree (filled in after triage)

def render_safe(body):
    return True


def make_render_safe(body):
    return body


# ================================================================== check / replay

# ---- source-side reading of an inline formatting context: the text items come from the DOCUMENT, not from the box tree,
# so a text box that is dropped while the tree is built (and with it its preserved white space) is seen

def ifc_source_doc(rng):
    # (`break-spaces` is not a value this version accepts: the declaration is dropped, so it is left out here, where the
    # expected text is computed from the DECLARED value)
    WS = ['normal', 'nowrap', 'pre', 'pre-wrap', 'pre-line']
    ws = rng.choice(WS)
    lead = rng.choice([' ', ' ', ' ', '  ', '\t', '\n', ' \n', '', 'a '])
    mid = rng.choice([' ', '', '  ', ' c ', '\n', ' \t'])
    tail = rng.choice(['', ' ', 'd', ' d ', '\n'])
    inner_ws = rng.choice([None, None, ws, rng.choice(WS)])
    tag = rng.choice(['b', 'span', 'em'])
    st = '' if inner_ws is None else ' style="white-space:%s"' % inner_ws
    iw = ws if inner_ws is None else inner_ws
    src = [('t', lead, ws, 0), ('t', 'ab', iw, 1), ('t', mid, ws, 2), ('t', 'ef', iw, 3), ('t', tail, ws, 4)]
    html = ('<style>body{margin:0;font-family:weasyprint;font-size:10px;line-height:10px}</style>'
            '<article style="white-space:%s">%s<%s%s>ab</%s>%s<%s%s>ef</%s>%s</article>'
            % (ws, lead, tag, st, tag, mid, tag, st, tag, tail))
    return html, [it for it in src if it[1] != ''], (ws, inner_ws, lead, mid, tail)


def judge_ifc_source(src, ifcs):
    e = phase2(phase1(src))
    act = []
    for ifc in ifcs:
        for it in ifc['items']:
            if it[0] == 't':
                act.extend([c, c == ' ' and it[2] in COLLAPSING] for c in it[4])
            else:
                act.append(['￼', False])
    a = phase2(act)
    return None if e == a else (e, a)


def stream_ifc_source(run, rng, thorough):
    docs = [ifc_source_doc(rng) for _ in range(1500 if thorough else 300)]
    outs = run_impl_safe('build_and_render', [dict(html=h, render=False) for h, _, _ in docs], limit=20)
    n = 0
    for (html, src, key), (st, o) in zip(docs, outs):
        if st != 'ok':
            continue
        n += 1
        bad = judge_ifc_source(src, o['pre']['ifcs'])
        if bad:
            run.fail('text of an inline formatting context is not the white-space-processed text of the document: expected %r, '
                     'box tree has %r (white-space %s, inner %s)' % (bad[0], bad[1], key[0], key[1]),
                     {'stream': 'ifc-source', 'html': html, 'src': [list(x) for x in src], 'expected': bad[0], 'got': bad[1]},
                     signature='text:ifc-source')
            break
    run.count('ifc-source', n, [k for _, _, k in docs], samples=[docs[0][0][-200:]])
    run.stream_info('ifc-source', rule='one block container under each white-space value holding: leading text (a lone space, '
                    'spaces, tab, line feed, none), an inline element (own white-space or inherited), text, an inline element, '
                    'trailing text; the text of the built box tree = the reference processing (CSS Text 3 4.1) of the text '
                    'nodes of the DOCUMENT')


def check(run):
    rng = random.Random(run.seed * 7919 + 8)
    thorough = run.tier == 'thorough'
    common.prove(run, 'C08', ['model/C08Whitespace.vo', 'model/C08Table.vo', 'model/C08Display.vo', 'model/C08Tree.vo',
                             'model/C08Fixups.vo', 'proofs/C08_gen_display.vo'])
    run.trusted += ['Coq 8.16.1 kernel (coqc); vm_compute for the cases.v evaluation',
                    'hand-written models coq/model/C08*.v: tied to /repo by the corr:* streams of every run; the display / '
                    'float model and the box class table also by the C08_source_* theorems about the text regenerated from '
                    'css/computed_values.py (display, compute_float, break_before_after) and build.py (BOX_TYPE_FROM_DISPLAY)',
                    'tools/py2coq.py (printer) and coq/base/Py.v (meaning of the printed syntax; len is its primitive PLen); '
                    'str.startswith and x[0] on a str are the builtins of proofs/C08_gen_display.v (builtin), methods resolved by name',
                    'harness/p_c08.py reference white-space processor of an inline formatting context (phase1/phase2, from CSS Text 3 4.1) '
                    'and word accounting; harness/impl_c08.py serialisation of box trees, process_whitespace hook']
    run.assumptions += ['text is modelled as UTF-8 bytes; text-transform is modelled for ASCII only',
                        'text boxes are in normal flow and not running (anonymous style)',
                        'capitalize is judged per text box as the implementation applies it',
                        'fix-up models (anonymous_table_boxes, inline_in_block, block_in_inline) are on an abstract box type (class, '
                        'in-flow, absolute, wrapper, white-space-only...) and tied by direct calls on synthetic real boxes; the box trees of '
                        'full documents are judged by spec_wf_tree, not compared with the fix-up models; running elements, flex_boxes / '
                        'grid_boxes and the span attribute of column groups are not modelled',
                        'slow documents (CPU limit 4 s) are counted and skipped: speed / termination is C02',
                        'element_to_box / content_to_boxes (counters, quotes, target-*) are only monitored through ::before/::after strings',
                        'C08_source_*: the style object is modelled by the members the computers read (specified float / position, '
                        'is_root_element); ComputedStyle.__missing__ (which records the specified values before the computers run), '
                        'make_box (the [:2] slice and the call of the class) and the class hierarchy of boxes.py are outside the '
                        'regenerated text: they are covered by the display stream']
    stream_ws(run, rng, thorough)
    stream_tables(run, rng, thorough)
    stream_fixups(run, rng, thorough)
    stream_table_ws(run, rng, thorough)
    stream_display(run, rng, thorough)
    stream_documents(run, rng, thorough)
    stream_ifc_source(run, rng, thorough)


def replay(data):
    d = data.get('data', {})
    stream = d.get('stream')
    run = common.Run('C08', 'quick', 0)
    run.known = []
    if stream == 'ifc-source':
        (st, o), = common.run_impl('impl_c08', 'build_and_render', [dict(html=d['html'], render=False)], limit=120)
        bad = judge_ifc_source([tuple(x) for x in d['src']], o['pre']['ifcs']) if st == 'ok' else (st, o)
        print('replay:', bad)
        return 1 if bad else 0
    if 'html' in d and stream in ('doc-build', 'doc-render', 'probe'):
        # the body tree is not stored: judge what does not need it (well-formedness, inline formatting contexts)
        (st, o), = common.run_impl('impl_c08', 'build_and_render', [dict(html=d['html'], render=stream == 'doc-render')], limit=120)
        if st != 'ok':
            print('replay:', st, o)
            return 1
        bad = []
        if 'post_crash' in o:
            bad.append(('crash', o['post_crash']['site']))
        for ifc in o['pre']['ifcs']:
            r = judge_ifc(ifc)
            if r:
                bad.append(r)
        cases = ['(false, %s)' % tree_term(o['pre']['tree'])] + ['(true, %s)' % tree_term(t) for t in o.get('post', {}).get('trees', [])]
        masks = common.eval_cases('c08replay', PRE_TREE, 'bool * tree', cases, 'wf_judge')
        bad += [('wf', m) for m in masks if m]
        if d.get('expected') is not None:
            for stage in ('pre', 'post'):
                if stage in o:
                    wd = words_diff(d['expected'], o[stage]['words'])
                    if wd:
                        bad.append(('words', stage, wd))
        print('replay:', bad[:5])
        return 1 if bad else 0
    if stream in ('table-slots', 'table-probe'):
        (st, o), = common.run_impl('impl_c08', 'table_slots', [{'html': d['html']}])
        if st != 'ok':
            print('replay:', st, o)
            return 1
        masks = common.eval_cases('c08replay', PRE_TAB, TAB_TYPE, [coq_table_case(t) for t in o], 'table_judge')
        print('replay: masks', masks)
        return 1 if any(m & 11 for m in masks) else 0
    if stream == 'ws-text':
        (st, o), = common.run_impl('impl_c08', 'ws_text', [d['case']])
        c = d['case']
        m = common.eval_cases('c08replay', PRE_WS, 'wsv * bool * list nat * list nat * bool * bool',
                              ['(%s,%s,%s,%s,%s,%s)' % (WSC[c['ws']], bl(c['f']), codes(c['text']), codes(o[0]), bl(o[1]), bl(o[2]))],
                              'text_judge')
        print('replay:', o, m)
        return 1 if m[0] else 0
    if stream == 'ws-tree':
        (st, o), = common.run_impl('impl_c08', 'ws_tree', [d['case']])
        c = d['case']
        m = common.eval_cases('c08replay', PRE_WS, 'bool * bool * bool * list cnode * list cnode * bool',
                              ['(%s,%s,%s,[%s],[%s],%s)' % (bl(c['pflow']), bl(c['run']), bl(c['f']), ';'.join(cnode(k) for k in c['kids']),
                                                            ';'.join(cnode(k) for k in o[0]), bl(o[1]))], 'tree_judge')
        print('replay:', o, m)
        return 1 if m[0] else 0
    if stream == 'display':
        c = d['case']
        (st, o), = common.run_impl('impl_c08', 'display_box', [c])
        m = common.eval_cases('c08replay', PRE_DISP, 'posv * floatv * bool * disp * disp * floatv * nat',
                              ['(%s,%s,%s,%s,%s,%s,%d)' % (POS[c['position']], FLOATS[c['float']], bl(c['root']), DISPLAYS[c['display']],
                                                          disp_term(o['display']), FLOATS[o['float']], CLS_CODE[o['cls']])], 'display_judge')
        print('replay:', o, m)
        return 1 if m[0] else 0
    if stream == 'table-ws-doc':
        (s1, o1), (s2, o2) = common.run_impl('impl_c08', 'table_ws_doc', [dict(html=d['html'], render=True),
                                                                           dict(html=d['html_without'], render=True)])
        if s1 != 'ok' or s2 != 'ok':
            print('replay:', s1, s2)
            return 1
        if d.get('must_contain'):
            ok = any(d['must_contain'] in x for x in o1['texts'])
            print('replay: texts', o1['texts'], 'contains it:', ok)
            return 0 if ok else 1
        diff = [k for k in ('tree', 'tables', 'texts', 'post') if o1.get(k) != o2.get(k)]
        print('replay: differs in', diff, o1['texts'], o2['texts'])
        return 1 if diff else 0
    if stream == 'table-ws-direct':
        (st, o), = common.run_impl('impl_c08', 'fix_atb_ws', [d['case']])
        if st != 'ok':
            print('replay:', st, o)
            return 1
        drop, keep = atb_ws_expect(d['case']['tree'])
        left = Counter(o['texts'])
        bad = [t for t in drop if left[t]] + [t for t in keep if left[t] != 1]
        print('replay: texts left', o['texts'], 'wrong:', bad)
        return 1 if bad else 0
    if stream in ('fixup-tables', 'fixup-inline-in-block', 'fixup-block-in-inline'):
        fn, judge = {'fixup-tables': ('fix_atb', 'atb_judge'), 'fixup-inline-in-block': ('fix_iib', 'iib_judge'),
                     'fixup-block-in-inline': ('fix_bii', 'bii_judge')}[stream]
        (st, o), = common.run_impl('impl_c08', fn, [d['case']])
        if st != 'ok':
            print('replay:', st, o)
            return 1
        m = common.eval_cases('c08replay', PRE_FIX, 'box * tree', ['(%s, %s)' % (box_term(d['case']['tree']), tree_term(o))], judge)
        print('replay:', m)
        return 1 if m[0] else 0
    print('nothing to replay for', stream)
    return 0
